"""Regenerates MANIFEST.json from the property table (run by hand after changing claims)."""
import json, os, sys
HERE = os.path.dirname(os.path.abspath(__file__))
sys.path.insert(0, HERE)
import props

NOTE_COMMON = ("Trusted: rustc nightly's MIR printer; mirsym's models of std (Vec/slice/iterators/Option/Result/maps as association "
               "lists/checked arithmetic) - validated by native replay of every counterexample and by the K second opinion where both apply; "
               "z3; Kani/CBMC. Bounds are stated per obligation in the evidence file; nothing is claimed outside them.")

def main():
    checks = []
    for pid, sp in sorted(props.PROPS.items()):
        checks.append(dict(
            property_id=pid, quick_cmd=f"python3-vt run.py {pid} --tier quick",
            thorough_cmd=f"python3-vt run.py {pid} --tier thorough", evidence_file=f"/verif/evidence/{pid}.json",
            replay_cmd_template=f"python3-vt run.py {pid} --replay {{path}}", engine=sp.get("engine", "mirsym"),
            level_claimed=dict(category="model_checking", text=sp["claim"], design_ref="DESIGN.md section 4, " + pid),
            level_note=sp.get("note", NOTE_COMMON), technique=sp.get("technique", "symbolic execution of rustc MIR with z3 (own executor mirsym), bounded")))
    na = [dict(property_id=k, reason=v) for k, v in sorted(props.NOT_APPLICABLE.items())]
    m = dict(version=1, setup_cmd="python3-vt run.py --setup",
             hooks=dict(guard="essential_base_verif", enable="none needed: the engines read MIR of / compile a scratch copy of /repo; no source hooks",
                        baseline_off_cmd="cd /repo && cargo test --workspace --no-fail-fast --offline", source_commits=[], add_only=True),
             engines=[dict(name="mirsym", path="/verif/mirsym", serves_properties=sorted(props.PROPS),
                           kind_free_text="own MIR->z3 path-exploring symbolic executor (python3-vt, z3), native replay crate /verif/replay"),
                      dict(name="kani", path="/verif/kani-harness", serves_properties=sorted(props.K_SEL),
                           kind_free_text="Kani 0.68 / CBMC 6.11 proof harnesses over a scratch copy of /repo")],
             checks=checks, notes="see DESIGN.md; known_findings.json lists genuine defects (all fixed so far)", not_applicable=na)
    json.dump(m, open(os.path.join(os.path.dirname(HERE), "MANIFEST.json"), "w"), indent=1)
    import jsonschema
    jsonschema.validate(m, json.load(open("/root/.vp/MANIFEST.schema.json")))
    print("MANIFEST.json written:", len(checks), "checks,", len(na), "not applicable")

if __name__ == "__main__":
    main()
