"""Property table: which obligations (K harnesses / M harnesses) decide which property in
which tier.  properties.jsonl itself is fixed and not edited."""
import os, re
import kanirun

TOOLS = dict(kani="0.68.0", cbmc="6.11.0 (cadical)", z3="z3-solver wheel (python3-vt)",
             rustc_mir="nightly -Zunpretty=mir")

K_TIERS = dict(quick=dict(jobs=14, timeout=420), thorough=dict(jobs=14, timeout=1800))

# K harness selection: (regex over `module::fn`, tiers)
K_SEL = {
    "C08": [(r"^c08_alu_(add|sub|shl|shr|shri|divmod_full_errcond)$", ("quick", "thorough")), (r"^c08_", ("thorough",))],
}

# harnesses that are only run in the thorough tier (slow)
K_THOROUGH_ONLY = [
]

PROPS = {
    "C08": dict(
        assumptions=[
            "Kani/CBMC model of Rust MIR and of the allocator; unwinding assertions on",
            "stack <= 4..8 words, memory <= 4 words (symbolic length and content); all operands any i64",
            "Mul/Div/Mod functional result on operands |x| < 2^16 or boundary constants; error condition and sign rules on full 64 bit",
        ],
        outside=["stack/memory shapes above the stated bounds", "EqSet (engine M)"],
    ),
}


def k_harnesses(pid, tier, kh_src):
    sel = K_SEL.get(pid, [])
    if not sel:
        return []
    out = []
    for h in kanirun.list_harnesses(kh_src):
        for rx, tiers in sel:
            if tier in tiers and re.search(rx, h.split("::")[1]):
                if tier == "quick" and any(re.search(t, h) for t in K_THOROUGH_ONLY):
                    continue
                out.append((h, harness_meta(kh_src, h)))
                break
    return out


def harness_meta(kh_src, h):
    """Bound / functions are documented in the harness source as `// bound:` / `// fn:` lines
    directly above the harness, else derived from the unwind attribute."""
    mod, fn = h.split("::")
    src = open(os.path.join(kh_src, mod + ".rs")).read()
    m = re.search(r"((?:///[^\n]*\n|//[^\n]*\n)*)#\[kani::proof\]\s*((?:#\[[^\]]*\]\s*)*)(?:pub\s+)?fn\s+" + fn + r"\b", src)
    bound, funcs = "", []
    if m:
        doc = m.group(1)
        unw = re.search(r"unwind\((\d+)\)", m.group(2))
        bound = (doc.strip().replace("///", "").replace("\n", " ").strip() + " ; " if doc.strip() else "") + \
                (f"unwind {unw.group(1)}" if unw else "")
    fm = re.search(r"^//! fn: (.*)$", src, re.M)
    if fm:
        funcs = [f.strip() for f in fm.group(1).split(",")]
    return dict(bound=bound, functions=funcs)


def m_harnesses(pid, tier):
    try:
        import mprops
    except ImportError:
        return []
    return mprops.select(pid, tier)
