"""Property table: which obligations (K harnesses / M harnesses) decide which property in
which tier.  properties.jsonl itself is fixed and not edited."""
import os, re
import kanirun

TOOLS = dict(kani="0.68.0", cbmc="6.11.0 (cadical)", z3="z3-solver wheel (python3-vt)",
             rustc_mir="nightly -Zunpretty=mir")

K_TIERS = dict(quick=dict(jobs=14, timeout=420), thorough=dict(jobs=14, timeout=1800))

# K harness selection: (regex over `module::fn`, tiers)
K_SEL = {
    "C08": [(r"^c08_alu_(add|sub|shl|shr|shri|divmod_full_errcond)$", ("quick", "thorough")), (r"^c08_", ("thorough",))],
}

# harnesses that are only run in the thorough tier (slow)
K_THOROUGH_ONLY = [
]

PROPS = {
    "C01": dict(claim="Bounded symbolic checking of the predicate-graph scheduler: the real MIR of check_predicate_inner and every helper below it (parent map, Kahn levels, deferral, caching, node_edges, the byte-level effect scan) is executed by mirsym on symbolic graphs (1..3 nodes, <=2 edges quick / <=3 thorough, every edge_start and edge target any u16, post-read flag per node), both passes over a shared cache, with an uninterpreted node runner; each path is compared with the reference scheduling semantics (every node once, after all parents, inputs = parents' outputs ascending, pass assignment, verdict, failing indices, gas, data outputs; cyclic/malformed rejected unevaluated); a flat level of 2..3 leaves with several failing / unsatisfied / data nodes at once (all reported, ascending). Edge slicing (node_edges) is decided separately against its documented rule. The per-node closure of check_predicate (scheduler and run_program uninterpreted): each node is run with the program stored under its own program address, the parents it was given, the call's solution index and leaf = 'empty edge range'. Node evaluation (run_program, Vm::exec_ops uninterpreted): initial VM state = parents' stacks and memories concatenated in order, leaf [1] / [2] / other mapping, hand-on of (stack, memory), gas and VM errors passed through, concatenation above the limits rejected. Set level (check_set_predicates, check_predicate uninterpreted): all failing solution indices ascending, saturating gas sum, data outputs and caches attached to the right solution. The layers compose through the interfaces that were made uninterpreted.",
                outside=["graphs above the bound", "dangling edge targets: only totality is asserted", "thread schedules (C02)"]),
    "C03": dict(claim="Post-state construction: the two-pass entry point (per-pass check uninterpreted) hands an empty post-state to the first pass and exactly the declared + computed mutations per contract to the second, gas added saturating. Routing: Post* read ops ask the post view, the others the pre view (h_vmio::state_read). Overlay: read_or_fallback + next_key (real MIR) with an uninterpreted pre-state, symbolic keys (<=2 words), <=2 proposed entries incl. deletions, counts 0..2 and any count > 2^40: per position the proposed value if the set proposes one for (contract, key+i) else the pre-state value for exactly that key, untouched contracts pass through, pre-state errors are returned unchanged, key successor with carry exact for keys <=4 words. Deferral: on the same symbolic graphs as C01 every node that depends on a post-state read (itself or an ancestor flagged) is evaluated only in the second pass and every other node exactly once in the first; the byte-level scan that sets the flag (bytes_contains_any) is decided against the parsed program on symbolic byte streams.",
                outside=["graphs / key lengths above the bound"]),
    "C04": dict(claim="Set-level uniqueness: check_set_state_mutations (real MIR) on sets of 1..3 solutions over two contracts with <=2 mutations each and symbolic keys accepts a set exactly when no two mutations of the WHOLE set address the same (contract, key); hence an accepted set proposes at most one value per slot, the post-state map built from it does not depend on insertion order, and the verdict of set validation is a symmetric function of the solutions.",
                outside=["content-address order independence (hash crate) and the two-pass verdict under permutation are not separately encoded: the latter follows from C01's per-solution reference semantics plus the well-defined post-state (argument, not a query)"]),
    "C16": dict(claim="Validators against the documented limits: check_set on sets built at limit-1 / limit / limit+1 / 0 for every pair of the six limits (solutions, slots, words per slot, total mutations, key and value length), predicate::check and check_contract at 999/1000/1001 nodes and edges and 99/100/101 predicates with the oversized predicate at any position; the one-mutation-per-slot rule with symbolic keys; and check::decode_mutations on symbolic data-output memories: an Ok set never holds two mutations for one key (declared + computed).",
                outside=["lengths are concrete boundary values (the validators only measure lengths), not symbolic integers", "check_signed_contract's signature part (C19)"]),
    "C05": dict(claim="One inductive step per operation: every Stack/Pred/Alu/Memory/ParentMemory op from an arbitrary machine state within the bound returns Ok or a typed Err on every path - a feasible panic, arithmetic overflow, out-of-bounds index or unreachable! is reported (mirsym treats MIR assert terminators and std panics as first-class outcomes).",
                outside=["control-flow, access, crypto, state-read and compute ops, and the exec loop, are not yet encoded here", "states above the bound; the 4096/10240 limits are reached only through symbolic operands, not through large states"]),
    "C06": dict(claim="No feasible panic / allocation abort in the decoders for mutations and predicates, Predicate::node_edges, single-op and stream bytecode parsing, BytecodeMapped construction and the graph scheduler, on symbolic inputs within the stated bounds (word strings <=6, byte strings in 16 length classes <=76, byte streams of <=3 ops, graphs <=3 nodes incl. cyclic, dangling and malformed ones).",
                outside=["inputs above the bounds", "GetPredicate/GetProgram map lookups (caller contract)"]),
    "C07": dict(claim="Vm::exec (real MIR) against a nondeterministic operation (any of None / Pc(any) / Halt / ComputeEnd / ComputeResult(any pc, any gas, any halt) / Err), any per-op cost (0..u64::MAX), any total limit, from any start pc: Ok(g) implies g is exactly the sum of the costs of the executed ops plus the gas returned by compute children, that sum does not overflow and g <= limit; OutOfGas is raised before the op executes (one more cost call than op executions) exactly when the next cost does not fit, or after a Compute whose children's gas does not fit.",
                outside=["more than 2 (thorough 3) loop iterations per path - the assertion is per iteration from an arbitrary accumulated gas", "that compute children individually respect the limit is the same loop (Vm::exec) applied recursively", "checker-level saturating sums are decided under C01"]),
    "C09": dict(claim="JumpIf/HaltIf/PanicIf/Halt from any stack <=4 words and any pc against the specification (condition 0/1, non-zero distance, target = pc + distance computed exactly, errors otherwise, PanicIf returns the stack); Repeat/RepeatEnd/RepeatCounter as ONE step of a state machine from an ARBITRARY repeat stack of <=2 slots (any counter/limit/direction/start index) - the loop semantics for every count follows by induction on the counter; the 4096-entry limit; Vm::eval's result.",
                outside=["whole loop programs are not unrolled here (per-step induction instead)", "nesting deeper than the slots bound except through the frame condition on outer slots"]),
    "C08": dict(claim="Bounded symbolic checking of every Stack/Pred/Alu/Memory/ParentMemory op: the real MIR of essential-vm's step_op_* is executed symbolically from every stack of <=6 (thorough 9) and memory of <=4 (6) fully symbolic words and compared with a reference model written from asm.yml incl. the frame condition; the arithmetic kernels are additionally decided on the compiled code by Kani/CBMC.",
                engine="mirsym+kani", technique="symbolic execution of rustc MIR with z3 (own executor) + Kani/CBMC proof harnesses",
                outside=["stack/memory shapes above the stated bounds", "EqSet", "the i64 division identity a=q*d+r is decided by K on operands |a|<2^16,|d|<2^8 plus boundary constants; full width only for the error condition and sign rules"]),
    "C10": dict(claim="compute::compute (real MIR, rayon iterators given sequential semantics) for a symbolic breadth -1..2 (thorough 3) over six child-body shapes with a symbolic parent stack / memory / repeat state: the result is compared with a reference that runs every child separately from the DOCUMENTED initial state (parent stack + index, empty memory, parent's repeat state, read-only parent memory, pc+1; executed by the real Vm::exec) and applies the documented join (memory = old ++ children in index order, stack minus the breadth, furthest pc, halt disjunction, gas sum); breadth < 1, nested Compute, a failing child, memory above the limit and a gas sum that does not fit are errors.",
                outside=["thread schedules (C02)", "breadth above the bound", "body shapes other than the six", "children using state-read / crypto ops"]),
    "C20": dict(claim="StdLock::apply from its real MIR with std::sync::Mutex replaced by an event-logging lock model: the closure is called exactly once, with the protected data itself, while the lock is held; the guard is released exactly once after the closure and before apply returns; apply returns the closure's value and consecutive applies see each other's updates; a nested apply on the same lock is the only way to block. The extracted per-call event order is then given to an SMT encoding of 3 threads x 2 calls whose interleaving is symbolic, under the Mutex axiom (lock..unlock sections of one mutex do not overlap): overlapping closure bodies and a lost update are unsatisfiable.",
                outside=["the std::sync::Mutex implementation itself (axiomatised)", "more than 3 threads x 2 calls in the schedule encoding (the argument is symmetric in threads)", "poisoning after a panicking closure"]),
    "C11": dict(claim="The four key-range read ops (real MIR of step_op_state_reads, key_range(_ext), pop_key_range_args, write_values_to_memory) with two distinguishable uninterpreted views: the request goes to the right view (pre/post) for the right contract (the solved contract, or the 4 big-endian external address words) with exactly the popped key and count; the state may answer with an error (returned unchanged as OpError::StateRead) or with 0..2 values of 0..1 (thorough 0..2) words independent of the count; on Ok memory holds [address, length] pairs then the values back-to-back at the given address, every other word and the memory length unchanged, the stack is exactly the words below the operands; values that do not fit, negative operands or missing words are errors. key_len / count / addr are any i64.",
                outside=["memory above 5 (7) words, keys above 2 words, more than 2 returned values"]),
    "C12": dict(claim="PredicateData / PredicateDataLen / PredicateDataSlots / ThisAddress / ThisContractAddress on 1..2 solutions with symbolic slots and 32-byte addresses, operands any i64, against asm.yml; Sha256 op: exactly ceil(len/8) words are consumed and the hasher sees exactly their first len bytes for every byte length incl. non-multiples of 8, result = the digest as 4 big-endian words; PredicateExists: one hash per solution over exactly len-prefixed slots ‖ contract ‖ predicate, result 1 iff the popped words equal one of the digests. SHA-256 is an uninterpreted function (equal inputs, equal digests). VerifyEd25519 / RecoverSecp256k1: exactly the documented words are popped in order, marshalled to the byte arrays the libraries see, result word(s) pushed, malformed operands are errors (libraries uninterpreted).",
                outside=["VerifyEd25519 and RecoverSecp256k1 marshalling (ed25519-dalek / libsecp256k1 wrappers are not modelled)", "agreement with the hash/sign crates is by sharing the uninterpreted SHA-256 only", "that SHA-256 itself is computed correctly"]),
    "C13": dict(claim="The macro-generated codec of essential-asm, executed from MIR against an independent reading of asm.yml: Opcode::try_from for every byte value, single-op parsing of any byte string <=10 bytes (consumed length, big-endian Push immediate for all 2^64 values, NotEnoughBytes/InvalidOpcode), to_bytes(parse(b)) = consumed bytes, parse(to_bytes(op)) = op for every op, short-name constants, and from_bytes/to_bytes over streams of <=3 ops.",
                outside=["streams longer than the bound rely on the single-step result (induction on the stream)", "the pinned opcode table comparison is done by the asm.yml reader at setup"]),
    "C14": dict(claim="BytecodeMapped (generic code instantiated at Op = essential_asm::Op) on symbolic byte streams of <=2 ops quick / <=3 thorough, owned and borrowed containers: mapping succeeds exactly when parsing does, with the same error kind; op_indices, ops(), op(i) incl. out of range, bytecode(), from_iter(ops) and OpAccess::op_access agree pointwise with the parsed list.",
                outside=["equal execution of the two program representations follows from pointwise equality of op_access (argument, not a query)"]),
    "C15": dict(claim="bytes_contains_any on well-formed symbolic byte streams (Push immediates fully symbolic, so immediates containing opcode bytes are inside) for all 64 effect sets equals 'some parsed op has one of the effects'; analyze(ops) equals the union of per-op flags on <=3 ops drawn from all effectful ops, Push and an effect-free op.",
                outside=["streams above the bound"]),
    "C17": dict(claim="What is hashed (SHA-256 uninterpreted): from_predicate_addrs_slice / from_solution_addrs_slice hash exactly the given addresses in ascending order (a permutation of the input - so the address does not depend on predicate / solution order) followed by the salt; Address for Predicate hashes encode_predicate(p), whose layout is the documented one, is inverted by decode_predicate (injective) and whose reported size equals its length; Address for Program hashes the program bytes; Address for Contract = from_contract = predicate addresses ‖ salt.",
                outside=["Address for Solution / SolutionSet runs through postcard, which the solver does not see: it is only exercised by a native differential on 51 structurally different solutions (distinct pre-hash bytes and addresses, set address independent of solution order) attached to h_hash::address_plumbing", "injectivity of the fixed-width concatenation is by construction (32-byte chunks), not a separate query", "SHA-256 itself"]),
    "C18": dict(claim="Wire codecs: decode_mutations(encode_mutations(ms)) = ms with the documented layout and sizes (<=2 mutations, key/value <=2 words), decode_predicate(encode_predicate(p)) = p (<=2 nodes, <=3 edges, any edge_start incl. the leaf marker), decode_mutation equals the documented layout on every word string <=6, and node_edges returns exactly the documented sub-range. Fixed-width conversions (every word / byte symbolic): bytes_from_word / word_from_bytes, word_4_from_u8_32 / u8_32_from_word_4, word_8_from_u8_64 / u8_64_from_word_8 are big-endian and mutually inverse in both directions, word_from_bytes_slice zero-pads / truncates slices of 0..10 bytes, bool_from_word accepts exactly 0 and 1, Signature <-> [u8; 65] and ContentAddress <-> [Word; 4] / [u8; 32] are the identity on their bytes.",
                outside=["hex strings, Display/FromStr and the serde round trips (JSON / postcard, is_human_readable branches): they run through the hex / serde / serde_json / postcard crates, whose generic Serializer machinery is not modelled", "sizes above the stated bounds"]),
    "C19": dict(claim="The Rust plumbing around the secp256k1 / ed25519 primitives, with the primitives as uninterpreted functions: sign::contract::sign then recover returns the signer's key and verify accepts, for every contract with <=2 predicates (one node, one edge, symbolic fields) and every salt, also when the verifier is given the predicates in the other order, because both sides hash the same content address (ascending predicate addresses, salt); recover / verify / RecoverSecp256k1 return an error (never panic) for every 64-byte signature and every recovery-id byte incl. ids >3; the VM op feeds the library exactly the popped 4+8+1 words in order and pushes encode::public_key's 5-word layout; encode::signature/public_key have the documented word layout. Each run also executes a native differential (real keys, real library) of contract sign/recover/verify and of the three VM crypto ops against the sign/hash crates.",
                outside=["axiom A1: recover(m, sign(m, sk)) = pubkey(sk) and serialize_compact/from_compact are inverse (libsecp256k1 contract)", "axiom A2: RecoveryId is valid iff 0..=3", "ECDSA / SHA-256 internals and therefore 'after any change to the predicates or salt the recovered key differs' (collision / forgery resistance of the primitives); the harness only shows the changed content reaches the hash input", "contracts with >2 predicates (the sort itself is decided for <=3 addresses by h_hash::addrs_canonical)"]),
    "C02": dict(claim="Schedule independence at task granularity, with the schedule as a solver-chosen variable: in the three rayon sections (nodes of one graph level in check_predicate_inner, solutions of a set in check_set_predicates, Compute children in compute::compute) the per-item tasks are executed one after another in EVERY order (all permutations for <=3 tasks) and the section's result is assembled by index as rayon's indexed collect / partition does; on every explored order the C01 / C10 oracles must hold, i.e. Ok/Err, failing indices, gas, data outputs, caches and the joined memory equal the sequential reference. A level of 2..3 independent leaves (each true / false / data / failing) makes the order of failing / unsatisfied indices and of data outputs observable. Bounds as in the underlying harnesses (graphs <=3 nodes / <=2 edges, <=3 solutions, breadth <=2). Counterexamples are replayed natively 10+2 times on pools of 2..16 threads (a schedule cannot be forced natively; not reproducing = inconclusive).",
                outside=["interleavings INSIDE a task (two tasks overlapping in time): tasks share no mutable state except Arc reference counts and the OnceLock in LazyCache, whose single initialisation is std's contract; Rust's Send/Sync rules exclude data races", "rayon's contracts: indexed collect / partition / zip / enumerate preserve index order, join waits for all tasks (trusted, not modelled)", "thread-pool sizes and work stealing themselves; more than 3 tasks per section only in identity / reverse / one rotation", "C03-level inputs beyond the C01 / C10 harness bounds"]),
}

NOT_APPLICABLE = {
}


def k_harnesses(pid, tier, kh_src):
    sel = K_SEL.get(pid, [])
    if not sel:
        return []
    out = []
    for h in kanirun.list_harnesses(kh_src):
        for rx, tiers in sel:
            if tier in tiers and re.search(rx, h.split("::")[1]):
                if tier == "quick" and any(re.search(t, h) for t in K_THOROUGH_ONLY):
                    continue
                out.append((h, harness_meta(kh_src, h)))
                break
    return out


def harness_meta(kh_src, h):
    """Bound / functions are documented in the harness source as `// bound:` / `// fn:` lines
    directly above the harness, else derived from the unwind attribute."""
    mod, fn = h.split("::")
    src = open(os.path.join(kh_src, mod + ".rs")).read()
    m = re.search(r"((?:///[^\n]*\n|//[^\n]*\n)*)#\[kani::proof\]\s*((?:#\[[^\]]*\]\s*)*)(?:pub\s+)?fn\s+" + fn + r"\b", src)
    bound, funcs = "", []
    if m:
        doc = m.group(1)
        unw = re.search(r"unwind\((\d+)\)", m.group(2))
        bound = (doc.strip().replace("///", "").replace("\n", " ").strip() + " ; " if doc.strip() else "") + \
                (f"unwind {unw.group(1)}" if unw else "")
    fm = re.search(r"^//! fn: (.*)$", src, re.M)
    if fm:
        funcs = [f.strip() for f in fm.group(1).split(",")]
    return dict(bound=bound, functions=funcs)


def m_harnesses(pid, tier):
    try:
        import mprops
    except ImportError:
        return []
    return mprops.select(pid, tier)


def assumptions_for(pid):
    sp = PROPS[pid]
    out = ["rustc nightly's MIR / stable-MIR / expanded printers are faithful to the compiled program",
           "mirsym's models of std/core/alloc (Vec, slices, iterators, Option/Result, maps and sets as association lists, checked arithmetic, allocation limits); every reported counterexample is first reproduced natively",
           "z3 answers (20 s per query in the quick tier, 90 s in the thorough tier; unknown = inconclusive path)",
           "uninterpreted: SHA-256, the state behind StateRead, the per-node program runner (where the harness says so)"]
    if pid in K_SEL: out.append("Kani 0.68 / CBMC 6.11: MIR->GOTO translation, unwinding assertions on, sequential shim for rayon")
    out += ["outside the claim: " + x for x in sp.get("outside", [])]
    return out
