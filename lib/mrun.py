"""Engine M driver: dump MIR (+ expanded source for enum layouts) of the needed crates from the
scratch copy of /repo, then run every selected mirsym harness in its own process group."""
import json, os, signal, subprocess, sys, time

from scratch import Inconclusive

HERE = os.path.dirname(os.path.abspath(__file__))
VERIF = os.path.dirname(HERE)
CACHE = os.environ.get("VERIF_CACHE", "/var/tmp/ebv-cache")
ENV = dict(os.environ, CARGO_NET_OFFLINE="true", CARGO_TERM_COLOR="never")
ORDER = ["types", "asm", "vm", "hash", "sign", "check", "lock"]
M_TIERS = dict(quick=dict(timeout=600, jobs=14), thorough=dict(timeout=3000, jobs=14))


def dump_mir(scratch, crates):
    """MIR text + macro-expanded source per crate -> <scratch>/mir/."""
    repo = os.path.join(scratch, "repo")
    out = os.path.join(scratch, "mir")
    os.makedirs(out, exist_ok=True)
    env = dict(ENV, CARGO_TARGET_DIR=os.path.join(CACHE, "mir-target"))
    os.makedirs(CACHE, exist_ok=True)
    t0 = time.time()
    # the dependency cache (one cargo target directory) is shared by all runs: concurrent dumps of different scratch copies race on
    # cargo's dep-info files, so the dump phase is serialised across processes
    import fcntl
    with open(os.path.join(CACHE, "mir.lock"), "w") as lk:
        fcntl.flock(lk, fcntl.LOCK_EX)
        for c in [c for c in ORDER if c in crates]:
            for flag, dst in (("mir", f"mir_{c}.txt"), ("expanded", f"exp_{c}.rs"), ("stable-mir", f"smir_{c}.txt")):
                src = os.path.join(repo, "crates", c, "src", "lib.rs")
                os.utime(src, None)
                cmd = ["cargo", "+nightly", "rustc", "--offline", "-p", f"essential-{c}", "--lib", "--",
                       f"-Zunpretty={flag}"]
                if flag in ("mir", "stable-mir"):
                    cmd += ["-C", "debug-assertions=off", "-C", "overflow-checks=on"]
                p = subprocess.run(cmd, cwd=repo, env=env, capture_output=True, text=True)
                if p.returncode != 0 or not p.stdout.strip():
                    raise Inconclusive(f"MIR dump of essential-{c} failed (tree does not build on nightly?):\n" + p.stderr[-1500:])
                open(os.path.join(out, dst), "w").write(p.stdout)
    return out, time.time() - t0


def run(pid, tier, seed, scratch, sel):
    """sel: list of (module, name, meta).  Yields (obligation dict, violation dict or None)."""
    crates = set()
    for mod, name, meta in sel:
        crates.update(meta["crates"])
    mir_dir, t_dump = dump_mir(scratch, crates)
    cfg = M_TIERS[tier]
    from concurrent.futures import ThreadPoolExecutor
    # heavy harnesses get all workers to themselves, the others share the machine three at a time
    heavy = [s for s in sel if s[2].get("heavy")]
    light = [s for s in sel if not s[2].get("heavy")]
    for s in heavy:
        yield _run_one(pid, tier, seed, scratch, mir_dir, cfg, cfg["jobs"], s)
    conc = 3 if len(light) > 2 else 1
    jobs = max(4, cfg["jobs"] // conc)
    with ThreadPoolExecutor(max_workers=conc) as ex:
        futs = [ex.submit(_run_one, pid, tier, seed, scratch, mir_dir, cfg, jobs, s) for s in light]
        for f in futs:
            yield f.result()


def _run_one(pid, tier, seed, scratch, mir_dir, cfg, jobs, item):
    mod, name, meta = item
    if True:
        outp = os.path.join(scratch, f"m_{mod}_{name}.json")
        cmd = [sys.executable, os.path.join(VERIF, "mirsym", "runone.py"), mir_dir, mod, name, tier, str(seed),
               outp, str(jobs), scratch]
        t0 = time.time()
        to = meta.get("timeout", {}).get(tier, cfg["timeout"])
        p = subprocess.Popen(cmd, start_new_session=True, stdout=subprocess.PIPE, stderr=subprocess.STDOUT, text=True,
                             env=dict(os.environ, EBV_REPO_COPY=os.path.join(scratch, "repo"),
                                      MIRSYM_QUERY_TIMEOUT_MS=os.environ.get("MIRSYM_QUERY_TIMEOUT_MS", "20000" if tier == "quick" else "90000")))
        try:
            so, _ = p.communicate(timeout=to)
            timed_out = False
        except subprocess.TimeoutExpired:
            try: os.killpg(p.pid, signal.SIGKILL)
            except ProcessLookupError: pass
            so, _ = p.communicate()
            timed_out = True
        wall = time.time() - t0
        ob = dict(engine="M", name=f"{mod}::{name}", bound=meta.get("bound", ""), functions=[], queries=0, paths=0,
                  solver_s=0, wall_s=round(wall, 1), covers=[0, 0], nonvacuous=False, why="")
        viol = None
        if timed_out or not os.path.exists(outp):
            ob["verdict"] = "inconclusive"
            ob["why"] = f"timeout after {to}s" if timed_out else "harness process failed: " + (so or "")[-600:]
            return ob, None
        r = json.load(open(outp))
        ob.update(functions=r["functions"], queries=r["queries"], paths=r["paths"], solver_s=r["solver_s"],
                  covers=[r["witnesses_hit"], r["witnesses"]], nonvacuous=r["witnesses_hit"] > 0,
                  native_validations=r.get("native_validations", 0),
                  sample=dict(harness=f"{mod}::{name}", paths=r["paths"], outcomes=r["outcomes"], examples=r["samples"][:3],
                              native_selfcheck=r.get("selfcheck", [])))
        has_repro = any(c.get("reproduced") for c in r["counterexamples"])
        if r["unmodelled"] and not has_repro:
            ob["verdict"] = "inconclusive"
            ob["why"] = "unmodelled construct: " + r["unmodelled"][0][:300]
        elif r["budget"] and not has_repro:
            ob["verdict"] = "inconclusive"; ob["why"] = "path budget exceeded"
        elif r["counterexamples"]:
            ce = r["counterexamples"][0]
            ob["verdict"] = "fail"
            ob["sample"]["counterexample"] = ce
            viol = dict(key=f"{mod}::{name} :: {ce['what']}", reproduced=ce.get("reproduced", False),
                        why=ce.get("replay_note", ""), native_runs=ce.get("native_runs", 0),
                        payload=dict(property=pid, engine="M", harness=f"{mod}::{name}", what=ce["what"],
                                     model=ce.get("model"), replay=ce.get("replay"), all_whats=r.get("all_whats", [])))
        elif any(sc.get("disagrees") for sc in r.get("selfcheck", [])):
            bad = next(sc for sc in r["selfcheck"] if sc.get("disagrees"))
            ob["verdict"] = "inconclusive"
            ob["why"] = "native self-check: the real code disagrees with the reference on a path the engine accepted (engine/oracle problem): " + bad["note"]
        elif r["witnesses_hit"] < r["witnesses"]:
            ob["verdict"] = "vacuous"; ob["why"] = "reachability witness not hit: " + ", ".join(r["witnesses_missing"])
        else:
            ob["verdict"] = "pass"
        return ob, viol
