"""Engine K driver: build the harness crate against the scratch copy of /repo and run
selected #[kani::proof] harnesses in parallel, parsing Kani's JSON export."""
import json, os, re, resource, shutil, subprocess, time

from scratch import Inconclusive

KANI_ENV = dict(os.environ, CARGO_NET_OFFLINE="true", CARGO_TERM_COLOR="never")


def list_harnesses(kh_src):
    """All harness names `module::fn` found in the harness crate sources."""
    out = []
    for fn in sorted(os.listdir(kh_src)):
        if not fn.endswith(".rs"):
            continue
        mod = fn[:-3]
        src = open(os.path.join(kh_src, fn)).read()
        for m in re.finditer(r"#\[kani::proof\]\s*(?:#\[[^\]]*\]\s*)*(?:pub\s+)?fn\s+(\w+)", src):
            out.append(f"{mod}::{m.group(1)}")
    return out


def _limits(mem_gb):
    def f():
        os.setsid()
        if mem_gb:
            b = int(mem_gb * (1 << 30))
            resource.setrlimit(resource.RLIMIT_AS, (b, b))
    return f


def run_kani(kh, harnesses, jobs=12, harness_timeout=300, mem_gb=None, log_path=None,
             overall_timeout=None, extra_args=()):
    """Run the given fully-qualified harnesses.  Returns (results, raw) where results maps
    harness -> dict(status, failed_checks, covers, stats, duration_s)."""
    if not harnesses:
        return {}, {}
    js = os.path.join(kh, "kani_export.json")
    if os.path.exists(js):
        os.remove(js)
    cmd = ["cargo", "kani", "-j", str(jobs), "--output-format", "terse",
           "-Z", "unstable-options", "--harness-timeout", f"{int(harness_timeout)}s",
           "--export-json", js, "--exact"]
    for h in harnesses:
        cmd += ["--harness", h]
    cmd += list(extra_args)
    t0 = time.time()
    log_path = log_path or os.path.join(kh, "kani.log")
    with open(log_path, "w") as lf:
        try:
            p = subprocess.run(cmd, cwd=kh, env=KANI_ENV, stdout=lf, stderr=subprocess.STDOUT,
                               timeout=overall_timeout)
            rc = p.returncode
        except subprocess.TimeoutExpired:
            rc = -9
    wall = time.time() - t0
    log = open(log_path, errors="replace").read()
    if "could not compile" in log or "error: Failed to execute cargo" in log:
        tail = "\n".join(log.splitlines()[-40:])
        raise Inconclusive(f"harness crate does not compile against the current tree:\n{tail}")
    res = {h: dict(status="missing", failed_checks=[], covers=(0, 0), stats={}, duration_s=None)
           for h in harnesses}
    raw = {}
    if os.path.exists(js):
        raw = json.load(open(js))
        stats = {c["harness_id"]: c.get("cbmc_stats", {}) for c in raw.get("cbmc", [])}
        pd = {c["harness_id"]: c.get("property_details", {}) for c in raw.get("property_details", [])}
        for r in raw.get("verification_results", {}).get("results", []):
            h = r["harness_id"]
            if h not in res:
                continue
            failed = [c for c in r.get("checks", []) if c.get("status") not in
                      ("Success", "Unreachable", "Satisfied", "Unsatisfiable", "Covered", "Uncovered")]
            covers_sat = sum(1 for c in r.get("checks", []) if c.get("status") == "Satisfied")
            covers_all = sum(1 for c in r.get("checks", []) if c.get("status") in ("Satisfied", "Unsatisfiable"))
            unsat_covers = [c for c in r.get("checks", []) if c.get("status") == "Unsatisfiable"]
            st = r.get("status")
            res[h] = dict(status=st, failed_checks=failed, covers=(covers_sat, covers_all),
                          unsat_covers=unsat_covers, stats=stats.get(h, {}),
                          props=pd.get(h, {}), duration_s=r.get("duration_ms", 0) / 1000.0,
                          n_checks=len(r.get("checks", [])))
    # classify
    for h, r in res.items():
        if r["status"] == "Success":
            unw = False
            if r["covers"][0] < r["covers"][1]:
                r["verdict"] = "vacuous"       # a cover witness is unreachable -> inconclusive
            else:
                r["verdict"] = "pass"
        elif r["status"] == "missing":
            r["verdict"] = "inconclusive"
            r["why"] = "no result (timeout/crash before export)"
        else:
            fc = r["failed_checks"]
            real = [c for c in fc if c.get("status") == "Failure"]
            unwind = [c for c in real if "unwinding assertion" in c.get("description", "")]
            other = [c for c in real if "unwinding assertion" not in c.get("description", "")]
            if other:
                r["verdict"] = "fail"
            elif unwind:
                r["verdict"] = "inconclusive"
                r["why"] = "unwinding assertion failed (bound too small)"
            else:
                r["verdict"] = "inconclusive"
                r["why"] = "timeout / out of memory / solver error"
    return res, dict(wall_s=wall, rc=rc, log=log_path, tools=raw.get("tools", {}))


def concrete_playback(kh, harness, timeout=900):
    """Re-run one failing harness with concrete playback; returns the generated unit test source
    (or None)."""
    cmd = ["cargo", "kani", "--harness", harness, "--exact", "--output-format", "terse",
           "-Z", "concrete-playback", "--concrete-playback=print"]
    try:
        p = subprocess.run(cmd, cwd=kh, env=KANI_ENV, capture_output=True, text=True, timeout=timeout)
    except subprocess.TimeoutExpired:
        return None
    out = p.stdout + p.stderr
    m = re.search(r"```\n(.*?)```", out, re.S)
    if not m:
        m = re.search(r"(/// Test generated for harness.*?\n}\n)", out, re.S)
    return m.group(1) if m else None


def native_replay(kh, harness, test_src, release=False, timeout=900):
    """Insert the generated test next to the harness and run it natively with
    `cargo kani playback`.  Returns (reproduced: bool, output)."""
    mod, fn = harness.split("::")
    path = os.path.join(kh, "src", mod + ".rs")
    src = open(path).read()
    name = re.search(r"fn (kani_concrete_playback_\w+)", test_src).group(1)
    if name not in src:
        # the generated test calls the harness by bare name; place it in the same module
        open(path, "w").write(src + "\n#[cfg(kani)]\nmod ebv_playback {\n    use super::*;\n" +
                              "\n".join("    " + l for l in test_src.splitlines()) + "\n}\n")
    cmd = ["cargo", "kani", "playback", "-Z", "concrete-playback"]
    if release:
        cmd.append("--release")
    cmd += ["--", name]
    try:
        p = subprocess.run(cmd, cwd=kh, env=KANI_ENV, capture_output=True, text=True, timeout=timeout)
    except subprocess.TimeoutExpired:
        return False, "timeout"
    out = p.stdout + p.stderr
    reproduced = ("test result: FAILED" in out) or ("panicked at" in out)
    ran = "running 1 test" in out
    return (reproduced and ran), out
