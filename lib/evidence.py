"""Evidence file writer (EVIDENCE.schema.json, level model_checking = bounded symbolic)."""
import json, os

VERIF = os.path.dirname(os.path.dirname(os.path.abspath(__file__)))


def write(pid, tier, seed, wall_s, obligations, violations, known, assumptions, extra=None):
    """obligations: list of dicts with keys engine, name, verdict, bound, functions, queries,
    solver_s, paths, covers, sample, why"""
    passed = [o for o in obligations if o["verdict"] == "pass"]
    inconcl = [o for o in obligations if o["verdict"] in ("inconclusive", "vacuous")]
    states = sum(int(o.get("paths", 0) or 0) for o in obligations)
    queries = sum(int(o.get("queries", 0) or 0) for o in obligations)
    # distinct non-trivial cases = reachability witnesses (outcome classes / kani::cover!) actually hit by passed obligations
    nontrivial = sum(int((o.get("covers") or [0, 0])[0] or 0) for o in passed)
    samples = [o.get("sample") for o in obligations if o.get("sample")][:10]
    if not samples:
        samples = [dict(obligation=o["name"], verdict=o["verdict"]) for o in obligations[:5]]
    cov = dict(
        states=max(states, 1),
        transitions=max(queries, 1),
        traces_validated_against_impl=int((extra or {}).get("native_validations", 0)),
        samples=samples,
        evaluations=max(queries, 1),
        distinct_nontrivial=nontrivial,
        rule=("one obligation = one solver-decided harness over symbolic inputs (mirsym MIR->SMT path set or Kani/CBMC "
              "proof harness); distinct_nontrivial = number of distinct reachability witnesses hit by the passed obligations "
              "(named outcome classes of paths such as ok / err / malformed / cyclic, or kani::cover! points); states = "
              "symbolic paths explored (M) / VCCs after simplification (K); transitions = solver queries (M) / properties "
              "decided (K)"),
        exhaustive=False,
        obligations=len(obligations),
        discharged=len(passed),
        inconclusive=[dict(name=o["name"], why=o.get("why", "")) for o in inconcl],
        functions_encoded=sorted({f for o in obligations for f in o.get("functions", [])}),
        bounds={o["name"]: o.get("bound", "") for o in obligations},
        solver_time_s=round(sum(float(o.get("solver_s", 0) or 0) for o in obligations), 3),
        per_obligation=[{k: o.get(k) for k in ("engine", "name", "verdict", "queries", "paths",
                                                 "solver_s", "wall_s", "covers")} for o in obligations],
        known_findings_reported=known,
        explanation=("Bounded symbolic checking: every verdict is a solver answer over ALL values of the "
                     "symbolic inputs inside the stated bound; nothing is claimed outside the bound."),
    )
    if extra:
        cov.update({k: v for k, v in extra.items() if k not in cov})
    ev = dict(property_id=pid, tier=tier, seed=seed, level="model_checking", coverage=cov,
              assumptions=assumptions, wall_s=round(wall_s, 2), violations=violations)
    # VERIF_EVIDENCE_DIR redirects the file for development runs (mutant evaluation, tier experiments); the registered commands
    # do not set it, so they always write /verif/evidence/<id>.json
    edir = os.environ.get("VERIF_EVIDENCE_DIR") or os.path.join(VERIF, "evidence")
    os.makedirs(edir, exist_ok=True)
    path = os.path.join(edir, f"{pid}.json")
    tmp = path + ".tmp"
    with open(tmp, "w") as f:
        json.dump(ev, f, indent=1, default=str)
    os.replace(tmp, path)
    return path
