"""setup_cmd: offline warm-up of the dependency caches (nightly MIR target, native replay target)
and self-checks of the framework.  Nothing here decides a property."""
import os, subprocess, sys, time
import scratch, mrun

def main():
    t0 = time.time()
    sc = scratch.make_scratch("setup")
    try:
        mir_dir, t = mrun.dump_mir(sc, set(mrun.ORDER))
        print(f"MIR + expanded source of {len(mrun.ORDER)} crates dumped in {t:.0f}s")
        sys.path.insert(0, os.path.join(scratch.VERIF, "mirsym"))
        import nativereplay
        for rel in (False, True):
            exe = nativereplay.build(sc, release=rel)
            print("replay binary built:", exe)
        # parse every MIR function once (parser self-check)
        import mir
        n = 0
        for c in mrun.ORDER:
            fns = mir.parse_file(os.path.join(mir_dir, f"mir_{c}.txt"), c)
            for f in fns.values():
                for bb in f.raw_blocks:
                    f.block(bb); n += 1
        print(f"parsed {n} MIR basic blocks")
        # translator validation: std models vs the native run of mirsym/selftest (pinned-input mode; informative, not a property)
        try:
            p = subprocess.run([sys.executable, os.path.join(scratch.VERIF, "mirsym", "selftest.py")], capture_output=True, text=True, timeout=900,
                               env=dict(os.environ, SELFTEST_SYMBOLIC="0"))
            print((p.stdout.strip().splitlines() or ["selftest: no output"])[-1])
            for l in p.stdout.splitlines():
                if l.startswith("!!"): print("  " + l)
        except Exception as e:
            print("selftest not run:", repr(e)[:200])
    finally:
        scratch.remove_scratch(sc)
    print(f"setup ok in {time.time()-t0:.0f}s")
    return 0
