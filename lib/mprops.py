"""Registry of engine-M harnesses per property and tier."""
import importlib, os, sys

HERE = os.path.dirname(os.path.abspath(__file__))
sys.path.insert(0, os.path.join(os.path.dirname(HERE), "mirsym"))
sys.path.insert(0, os.path.join(os.path.dirname(HERE), "mirsym", "harness"))

MODULES = ["h_vmops", "h_types", "h_asm", "h_bytecode", "h_graph", "h_vmctl", "h_check", "h_vmio", "h_compute", "h_lock", "h_hash", "h_levels", "h_crypto", "h_par"]


def select(pid, tier):
    out = []
    for mod in MODULES:
        try:
            m = importlib.import_module(mod)
        except ImportError:
            continue
        for name, hd in m.HARNESSES.items():
            if pid in hd["props"] and tier in hd.get("tiers", ("quick", "thorough")):
                out.append((mod, name, dict(crates=hd["crates"], bound=hd.get("bound", {}).get(tier, hd.get("bound_text", "")),
                                            timeout=hd.get("timeout", {}), heavy=bool(hd.get("heavy")))))
    return out
