"""Regeneration step (DESIGN.md 2.1): a fresh scratch copy of /repo's *current working tree*
for every run, plus the mechanical rewrites engine K needs.  Never touches /repo."""
import os, re, shutil, subprocess, sys, tempfile

REPO = os.environ.get("VERIF_REPO", "/repo")
VERIF = os.path.dirname(os.path.dirname(os.path.abspath(__file__)))
SCRATCH_ROOT = os.environ.get("VERIF_SCRATCH", "/var/tmp")

SEQ_SHIM = """use self::__ebv_seqshim::*;
#[allow(dead_code, unused_imports)]
mod __ebv_seqshim {
    pub trait EbvSeqInto: IntoIterator + Sized {
        fn into_par_iter(self) -> Self::IntoIter { self.into_iter() }
    }
    impl<T: IntoIterator> EbvSeqInto for T {}
    pub trait EbvSeqRef<T> {
        fn par_iter(&self) -> core::slice::Iter<'_, T>;
    }
    impl<T> EbvSeqRef<T> for [T] {
        fn par_iter(&self) -> core::slice::Iter<'_, T> { self.iter() }
    }
    impl<T> EbvSeqRef<T> for Vec<T> {
        fn par_iter(&self) -> core::slice::Iter<'_, T> { self.iter() }
    }
}
"""

class Inconclusive(Exception):
    pass


def make_scratch(tag="run"):
    """rsync /repo (without target/ and .git) into a fresh directory; returns its path."""
    d = tempfile.mkdtemp(prefix=f"ebv.{tag}.", dir=SCRATCH_ROOT)
    dst = os.path.join(d, "repo")
    subprocess.run(["rsync", "-a", "--exclude", "target", "--exclude", ".git",
                    REPO + "/", dst + "/"], check=True)
    return d


def remove_scratch(d):
    if d and os.path.isdir(d) and os.path.basename(d).startswith("ebv."):
        shutil.rmtree(d, ignore_errors=True)


def _rewrite(path, pattern, repl, expect=None, flags=re.M):
    src = open(path).read()
    new, n = re.subn(pattern, repl, src, flags=flags)
    if expect is not None and n != expect:
        raise Inconclusive(f"rewrite of {path}: pattern {pattern!r} matched {n} times, expected {expect}")
    open(path, "w").write(new)
    return n


PUB_FILES = ["compute", "total_control_flow", "repeat", "state_read", "access", "crypto",
             "sets", "pred", "alu", "cached"]


def apply_k_rewrites(scratch):
    """Rewrites for engine K (scratch copy only):
       * `use rayon::prelude::*;` -> sequential shim (Kani ICEs on rayon);
       * private top-level items of selected vm modules -> pub, `mod x;` -> `pub mod x;`.
    Bodies are untouched.  Returns a dict describing what was rewritten."""
    repo = os.path.join(scratch, "repo")
    info = {}
    n = 0
    for rel in ["crates/vm/src/compute.rs", "crates/check/src/solution.rs"]:
        p = os.path.join(repo, rel)
        n += _rewrite(p, r"^use rayon::prelude::\*;\n", lambda m: SEQ_SHIM, expect=1)
    info["rayon_shim_sites"] = n
    # visibility
    libp = os.path.join(repo, "crates/vm/src/lib.rs")
    vis = 0
    for m in PUB_FILES:
        vis += _rewrite(libp, rf"^mod {m};", f"pub mod {m};", expect=1)
        p = os.path.join(repo, f"crates/vm/src/{m}.rs")
        vis += _rewrite(p, r"^(pub\(crate\) |pub\(super\) )?(fn|struct|enum|const|type) ",
                        lambda mm: "pub " + mm.group(2) + " ")
        vis += _rewrite(p, r"^    pub\(crate\) fn ", "    pub fn ")
    # missing_docs is denied in vm: relax (attributes only, no code)
    _rewrite(libp, r"#!\[deny\(missing_docs, unsafe_code\)\]", "#![deny(unsafe_code)]", expect=1)
    # Stack's pub(crate) methods (reserve_zeroed, load, ...) are reached through step_op_stack.
    info["visibility_edits"] = vis
    return info


def setup_k_crate(scratch, repo_lock=True):
    """Copy the harness crate next to the scratch repo."""
    kh = os.path.join(scratch, "kh")
    shutil.copytree(os.path.join(VERIF, "kani-harness"), kh,
                    ignore=shutil.ignore_patterns("target", "Cargo.lock"))
    shutil.copy(os.path.join(scratch, "repo", "Cargo.lock"), os.path.join(kh, "Cargo.lock"))
    os.makedirs(os.path.join(kh, ".cargo"), exist_ok=True)
    with open(os.path.join(kh, ".cargo", "config.toml"), "w") as f:
        f.write("[net]\noffline = true\n")
    return kh
