"""Independent mini-reader of crates/asm-spec/asm.yml (flat YAML subset: nested `group:` maps,
ops are maps with an `opcode:` key).  No YAML library is available in the image."""
import json, os, re


def read(path):
    """-> list of dict(group, name, opcode, num_arg_bytes, short, stack_in_present)"""
    ops, stack = [], []          # stack of (indent, key)
    cur = None
    for raw in open(path):
        line = raw.rstrip("\n")
        if not line.strip() or line.strip().startswith("#"): continue
        ind = len(line) - len(line.lstrip(" "))
        m = re.match(r"^(\s*)([A-Za-z_][\w]*):\s*(.*)$", line)
        if not m: continue
        key, val = m.group(2), m.group(3).strip()
        while stack and stack[-1][0] >= ind: stack.pop()
        if key == "opcode":
            path_keys = [k for _, k in stack if k not in ("group",)]
            cur = dict(group=path_keys[-2] if len(path_keys) >= 2 else None, name=path_keys[-1],
                       path=path_keys, opcode=int(val, 0), num_arg_bytes=0, short=None)
            ops.append(cur)
        elif key == "num_arg_bytes" and cur is not None and stack and stack[-1][1] == cur["name"]:
            cur["num_arg_bytes"] = int(val, 0)
        elif key == "short" and cur is not None and stack and stack[-1][1] == cur["name"]:
            cur["short"] = val
        stack.append((ind, key))
    for o in ops:
        if o["short"] is None: o["short"] = o["name"].upper()
    return ops


def load(repo):
    return read(os.path.join(repo, "crates", "asm-spec", "asm.yml"))


if __name__ == "__main__":
    import sys
    ops = load(sys.argv[1] if len(sys.argv) > 1 else "/repo")
    print(len(ops))
    for o in ops: print(hex(o["opcode"]), o["group"], o["name"], o["num_arg_bytes"], o["short"])
