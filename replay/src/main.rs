//! Native replay of solver counterexamples against the real (unmodified) crates through
//! their public API.  Input: `key=value` lines on stdin; output: `key=value` lines.
//! Every kind runs under catch_unwind so a panic is reported as `panic=<message>`.
use std::collections::HashMap;
use std::io::Read;
use std::panic;

mod kinds;

pub type Input = HashMap<String, String>;

pub fn words(s: &str) -> Vec<i64> {
    s.split_whitespace().map(|w| w.parse::<i64>().expect("REPLAY-HARNESS: word")).collect()
}
pub fn bytes(s: &str) -> Vec<u8> {
    s.split_whitespace().map(|w| w.parse::<u8>().expect("REPLAY-HARNESS: byte")).collect()
}
pub fn get<'a>(i: &'a Input, k: &str) -> &'a str {
    i.get(k).map(|s| s.as_str()).unwrap_or("")
}
pub fn fmt_words(w: &[i64]) -> String {
    w.iter().map(|x| x.to_string()).collect::<Vec<_>>().join(" ")
}
pub fn fmt_bytes(w: &[u8]) -> String {
    w.iter().map(|x| x.to_string()).collect::<Vec<_>>().join(" ")
}

fn main() {
    let mut txt = String::new();
    std::io::stdin().read_to_string(&mut txt).unwrap();
    let mut input = Input::new();
    for l in txt.lines() {
        if let Some((k, v)) = l.split_once('=') {
            input.insert(k.trim().to_string(), v.trim().to_string());
        }
    }
    let kind = get(&input, "kind").to_string();
    panic::set_hook(Box::new(|_| {}));
    let r = panic::catch_unwind(|| kinds::run(&kind, &input));
    match r {
        Ok(out) => print!("{out}"),
        Err(e) => {
            let msg = e
                .downcast_ref::<String>()
                .cloned()
                .or_else(|| e.downcast_ref::<&str>().map(|s| s.to_string()))
                .unwrap_or_else(|| "panic".to_string());
            println!("panic={}", msg.replace('\n', " "));
        }
    }
}
