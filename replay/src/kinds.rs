use crate::*;
use essential_asm as asm;
use essential_types::{solution::Solution, ContentAddress, PredicateAddress};
use essential_vm::{Access, GasLimit, Memory, Op, Stack, Vm};
use std::sync::Arc;

pub fn run(kind: &str, i: &Input) -> String {
    match kind {
        "vm_op" => vm_op(i),
        _ => format!("unknown_kind={kind}\n"),
    }
}

struct NoState;
impl essential_vm::StateRead for NoState {
    type Error = String;
    fn key_range(&self, _c: ContentAddress, _k: Vec<i64>, _n: usize) -> Result<Vec<Vec<i64>>, String> {
        Ok(vec![])
    }
}
impl essential_vm::StateReads for NoState {
    type Error = String;
    type Pre = Self;
    type Post = Self;
    fn pre(&self) -> &Self { self }
    fn post(&self) -> &Self { self }
}

pub fn test_access() -> Access {
    Access::new(
        Arc::new(vec![Solution {
            predicate_to_solve: PredicateAddress { contract: ContentAddress([0xFF; 32]), predicate: ContentAddress([0xAA; 32]) },
            predicate_data: vec![],
            state_mutations: vec![],
        }]),
        0,
    )
}

pub fn op_by_name(name: &str, imm: i64) -> Op {
    use asm::*;
    match name {
        "Stack::Push" => Stack::Push(imm).into(),
        "Stack::Pop" => Stack::Pop.into(),
        "Stack::Dup" => Stack::Dup.into(),
        "Stack::DupFrom" => Stack::DupFrom.into(),
        "Stack::Swap" => Stack::Swap.into(),
        "Stack::SwapIndex" => Stack::SwapIndex.into(),
        "Stack::Select" => Stack::Select.into(),
        "Stack::SelectRange" => Stack::SelectRange.into(),
        "Stack::Repeat" => Stack::Repeat.into(),
        "Stack::RepeatEnd" => Stack::RepeatEnd.into(),
        "Stack::Reserve" => Stack::Reserve.into(),
        "Stack::Load" => Stack::Load.into(),
        "Stack::Store" => Stack::Store.into(),
        "Stack::Drop" => Stack::Drop.into(),
        "Pred::Eq" => Pred::Eq.into(),
        "Pred::EqRange" => Pred::EqRange.into(),
        "Pred::Gt" => Pred::Gt.into(),
        "Pred::Lt" => Pred::Lt.into(),
        "Pred::Gte" => Pred::Gte.into(),
        "Pred::Lte" => Pred::Lte.into(),
        "Pred::And" => Pred::And.into(),
        "Pred::Or" => Pred::Or.into(),
        "Pred::Not" => Pred::Not.into(),
        "Pred::EqSet" => Pred::EqSet.into(),
        "Pred::BitAnd" => Pred::BitAnd.into(),
        "Pred::BitOr" => Pred::BitOr.into(),
        "Alu::Add" => Alu::Add.into(),
        "Alu::Sub" => Alu::Sub.into(),
        "Alu::Mul" => Alu::Mul.into(),
        "Alu::Div" => Alu::Div.into(),
        "Alu::Mod" => Alu::Mod.into(),
        "Alu::Shl" => Alu::Shl.into(),
        "Alu::Shr" => Alu::Shr.into(),
        "Alu::ShrI" => Alu::ShrI.into(),
        "Memory::Alloc" => Memory::Alloc.into(),
        "Memory::Free" => Memory::Free.into(),
        "Memory::Load" => Memory::Load.into(),
        "Memory::Store" => Memory::Store.into(),
        "Memory::LoadRange" => Memory::LoadRange.into(),
        "Memory::StoreRange" => Memory::StoreRange.into(),
        "ParentMemory::Load" => ParentMemory::Load.into(),
        "ParentMemory::LoadRange" => ParentMemory::LoadRange.into(),
        "TotalControlFlow::Halt" => TotalControlFlow::Halt.into(),
        "TotalControlFlow::HaltIf" => TotalControlFlow::HaltIf.into(),
        "TotalControlFlow::JumpIf" => TotalControlFlow::JumpIf.into(),
        "TotalControlFlow::PanicIf" => TotalControlFlow::PanicIf.into(),
        "Access::RepeatCounter" => Access::RepeatCounter.into(),
        "Access::PredicateData" => Access::PredicateData.into(),
        "Access::PredicateDataLen" => Access::PredicateDataLen.into(),
        "Access::PredicateDataSlots" => Access::PredicateDataSlots.into(),
        "Access::ThisAddress" => Access::ThisAddress.into(),
        "Access::ThisContractAddress" => Access::ThisContractAddress.into(),
        "Access::PredicateExists" => Access::PredicateExists.into(),
        "Compute::Compute" => Compute::Compute.into(),
        "Compute::ComputeEnd" => Compute::ComputeEnd.into(),
        _ => panic!("unknown op {name}"),
    }
}

/// one operation from a given machine state, through `Vm::exec_ops`
fn vm_op(i: &Input) -> String {
    let op = op_by_name(get(i, "op"), get(i, "imm").parse().unwrap_or(0));
    let mut vm = Vm::default();
    vm.stack = Stack::try_from(words(get(i, "stack"))).unwrap();
    vm.memory = Memory::try_from(words(get(i, "memory"))).unwrap();
    if i.contains_key("parent") {
        vm.parent_memory = vec![Arc::new(Memory::try_from(words(get(i, "parent"))).unwrap())];
    }
    if let Some(pc) = i.get("pc") {
        vm.pc = pc.parse().unwrap();
    }
    let pc0 = vm.pc;
    // the op sits at index pc0 of a program of pc0+1 ops (ops before it are never executed)
    let mut ops = vec![Op::from(asm::Stack::Pop); pc0.min(64)];
    if pc0 > 64 { return "skipped=pc too large for a concrete program\n".into(); }
    ops.push(op);
    let r = vm.exec_ops(&ops, test_access(), &NoState, &|_: &Op| 1, GasLimit::UNLIMITED);
    let mut out = String::new();
    match r {
        Ok(g) => out += &format!("result=ok\ngas={g}\n"),
        Err(e) => out += &format!("result=err\nerr_index={}\nerr={}\n", e.0, e.1.to_string().replace('\n', " ")),
    }
    out += &format!("stack={}\nmemory={}\npc={}\nhalt={}\n", fmt_words(&vm.stack), fmt_words(&vm.memory), vm.pc, vm.halt);
    out
}
