use crate::*;
use essential_asm as asm;
use essential_types::{solution::Solution, ContentAddress, PredicateAddress};
use essential_vm::{Access, GasLimit, Memory, Op, Stack, Vm};
use std::sync::Arc;

pub fn run(kind: &str, i: &Input) -> String {
    match kind {
        "vm_op" => vm_op(i),
        "asm_bytes" => asm_bytes(i),
        "vm_prog" => vm_prog(i),
        "crypto_roundtrip" => crypto_roundtrip(i),
        "vm_pex" => vm_pex(i),
        "vm_eval" => vm_eval(i),
        "check_multi" => check_multi(i),
        "hash_solution_diff" => hash_solution_diff(i),
        "vm_compute" => vm_compute(i),
        "types_convert" => types_convert(i),
        "hash_addrs" => hash_addrs(i),
        "lock_stress" => lock_stress(i),
        "vm_io" => vm_io(i),
        "vm_mapped" => vm_mapped(i),
        "check_graph" => check_graph(i),
        "check_set" => check_set_kind(i),
        "check_leaves" => check_leaves(i),
        "types_words" => types_words(i),
        "types_bytes" => types_bytes(i),
        "types_roundtrip" => types_roundtrip(i),
        "types_node_edges" => types_node_edges(i),
        _ => format!("unknown_kind={kind}\n"),
    }
}

struct NoState;
impl essential_vm::StateRead for NoState {
    type Error = String;
    fn key_range(&self, _c: ContentAddress, _k: Vec<i64>, _n: usize) -> Result<Vec<Vec<i64>>, String> {
        Ok(vec![])
    }
}
impl essential_vm::StateReads for NoState {
    type Error = String;
    type Pre = Self;
    type Post = Self;
    fn pre(&self) -> &Self { self }
    fn post(&self) -> &Self { self }
}

pub fn test_access() -> Access {
    Access::new(
        Arc::new(vec![Solution {
            predicate_to_solve: PredicateAddress { contract: ContentAddress([0xFF; 32]), predicate: ContentAddress([0xAA; 32]) },
            predicate_data: vec![],
            state_mutations: vec![],
        }]),
        0,
    )
}

pub fn op_by_name(name: &str, imm: i64) -> Op {
    use asm::*;
    match name {
        "Stack::Push" => Stack::Push(imm).into(),
        "Stack::Pop" => Stack::Pop.into(),
        "Stack::Dup" => Stack::Dup.into(),
        "Stack::DupFrom" => Stack::DupFrom.into(),
        "Stack::Swap" => Stack::Swap.into(),
        "Stack::SwapIndex" => Stack::SwapIndex.into(),
        "Stack::Select" => Stack::Select.into(),
        "Stack::SelectRange" => Stack::SelectRange.into(),
        "Stack::Repeat" => Stack::Repeat.into(),
        "Stack::RepeatEnd" => Stack::RepeatEnd.into(),
        "Stack::Reserve" => Stack::Reserve.into(),
        "Stack::Load" => Stack::Load.into(),
        "Stack::Store" => Stack::Store.into(),
        "Stack::Drop" => Stack::Drop.into(),
        "Pred::Eq" => Pred::Eq.into(),
        "Pred::EqRange" => Pred::EqRange.into(),
        "Pred::Gt" => Pred::Gt.into(),
        "Pred::Lt" => Pred::Lt.into(),
        "Pred::Gte" => Pred::Gte.into(),
        "Pred::Lte" => Pred::Lte.into(),
        "Pred::And" => Pred::And.into(),
        "Pred::Or" => Pred::Or.into(),
        "Pred::Not" => Pred::Not.into(),
        "Pred::EqSet" => Pred::EqSet.into(),
        "Pred::BitAnd" => Pred::BitAnd.into(),
        "Pred::BitOr" => Pred::BitOr.into(),
        "Alu::Add" => Alu::Add.into(),
        "Alu::Sub" => Alu::Sub.into(),
        "Alu::Mul" => Alu::Mul.into(),
        "Alu::Div" => Alu::Div.into(),
        "Alu::Mod" => Alu::Mod.into(),
        "Alu::Shl" => Alu::Shl.into(),
        "Alu::Shr" => Alu::Shr.into(),
        "Alu::ShrI" => Alu::ShrI.into(),
        "Memory::Alloc" => Memory::Alloc.into(),
        "Memory::Free" => Memory::Free.into(),
        "Memory::Load" => Memory::Load.into(),
        "Memory::Store" => Memory::Store.into(),
        "Memory::LoadRange" => Memory::LoadRange.into(),
        "Memory::StoreRange" => Memory::StoreRange.into(),
        "ParentMemory::Load" => ParentMemory::Load.into(),
        "ParentMemory::LoadRange" => ParentMemory::LoadRange.into(),
        "TotalControlFlow::Halt" => TotalControlFlow::Halt.into(),
        "TotalControlFlow::HaltIf" => TotalControlFlow::HaltIf.into(),
        "TotalControlFlow::JumpIf" => TotalControlFlow::JumpIf.into(),
        "TotalControlFlow::PanicIf" => TotalControlFlow::PanicIf.into(),
        "Access::RepeatCounter" => Access::RepeatCounter.into(),
        "Access::PredicateData" => Access::PredicateData.into(),
        "Access::PredicateDataLen" => Access::PredicateDataLen.into(),
        "Access::PredicateDataSlots" => Access::PredicateDataSlots.into(),
        "Access::ThisAddress" => Access::ThisAddress.into(),
        "Access::ThisContractAddress" => Access::ThisContractAddress.into(),
        "Access::PredicateExists" => Access::PredicateExists.into(),
        "Compute::Compute" => Compute::Compute.into(),
        "Compute::ComputeEnd" => Compute::ComputeEnd.into(),
        "Crypto::Sha256" => Crypto::Sha256.into(),
        "Crypto::VerifyEd25519" => Crypto::VerifyEd25519.into(),
        "Crypto::RecoverSecp256k1" => Crypto::RecoverSecp256k1.into(),
        "StateRead::KeyRange" => StateRead::KeyRange.into(),
        "StateRead::KeyRangeExtern" => StateRead::KeyRangeExtern.into(),
        "StateRead::PostKeyRange" => StateRead::PostKeyRange.into(),
        "StateRead::PostKeyRangeExtern" => StateRead::PostKeyRangeExtern.into(),
        _ => panic!("REPLAY-HARNESS: unknown op {name}"),
    }
}

/// one operation from a given machine state, through `Vm::exec_ops`
fn vm_op(i: &Input) -> String {
    let op = op_by_name(get(i, "op"), get(i, "imm").parse().unwrap_or(0));
    let mut vm = Vm::default();
    vm.stack = Stack::try_from(words(get(i, "stack"))).expect("REPLAY-HARNESS: initial stack");
    vm.memory = Memory::try_from(words(get(i, "memory"))).expect("REPLAY-HARNESS: initial memory");
    if i.contains_key("parent") {
        vm.parent_memory = vec![Arc::new(Memory::try_from(words(get(i, "parent"))).expect("REPLAY-HARNESS: parent memory"))];
    }
    if let Some(pc) = i.get("pc") {
        vm.pc = pc.parse().unwrap();
    }
    let pc0 = vm.pc;
    // the op sits at index pc0 of a program of pc0+1 ops (ops before it are never executed)
    let filler: Op = if get(i, "fill") == "halt" { asm::TotalControlFlow::Halt.into() } else { asm::Stack::Pop.into() };
    let mut ops = vec![filler; pc0.min(64)];
    if pc0 > 64 { return "skipped=pc too large for a concrete program\n".into(); }
    ops.push(op);
    let tail: usize = get(i, "tail").parse().unwrap_or(0);
    for _ in 0..tail { ops.push(filler); }
    let r = vm.exec_ops(&ops, test_access(), &NoState, &|_: &Op| 1, GasLimit::UNLIMITED);
    let mut out = String::new();
    match r {
        Ok(g) => out += &format!("result=ok\ngas={g}\n"),
        Err(e) => out += &format!("result=err\nerr_index={}\nerr={}\n", e.0, e.1.to_string().replace('\n', " ")),
    }
    out += &format!("stack={}\nmemory={}\npc={}\nhalt={}\n", fmt_words(&vm.stack), fmt_words(&vm.memory), vm.pc, vm.halt);
    out
}

use essential_types::predicate::{Node, Predicate};
use essential_types::solution::{decode::decode_mutations, encode::encode_mutations, Mutation};

fn fmt_mutation(m: &Mutation) -> String {
    format!("[{}|{}]", fmt_words(&m.key), fmt_words(&m.value))
}

fn types_words(i: &Input) -> String {
    let ws = words(get(i, "words"));
    match get(i, "fn") {
        "decode_mutation" => match Mutation::decode_mutation(&ws) {
            Ok(m) => format!("result=ok\nvalue={}\n", fmt_mutation(&m)),
            Err(e) => format!("result=err\nerr={e:?}\n"),
        },
        "decode_mutations" => match decode_mutations(&ws) {
            Ok(ms) => format!("result=ok\nvalue={}\n", ms.iter().map(fmt_mutation).collect::<Vec<_>>().join(";")),
            Err(e) => format!("result=err\nerr={e:?}\n"),
        },
        f => format!("unknown_fn={f}\n"),
    }
}

fn fmt_predicate(p: &Predicate) -> String {
    let nodes: Vec<String> = p.nodes.iter().map(|n| format!("{}:{}", n.edge_start, fmt_bytes(&n.program_address.0))).collect();
    let edges: Vec<String> = p.edges.iter().map(|e| e.to_string()).collect();
    format!("nodes={}\nedges={}\n", nodes.join(";"), edges.join(" "))
}

fn types_bytes(i: &Input) -> String {
    let bs = bytes(get(i, "bytes"));
    match Predicate::decode(&bs) {
        Ok(p) => format!("result=ok\n{}", fmt_predicate(&p)),
        Err(e) => format!("result=err\nerr={e:?}\n"),
    }
}

pub fn parse_predicate(i: &Input) -> Predicate {
    // nodes=es:b0 b1 ..;es:..   edges=e0 e1
    let mut nodes = vec![];
    for n in get(i, "nodes").split(';').filter(|s| !s.trim().is_empty()) {
        let (es, addr) = n.split_once(':').unwrap();
        let mut a = [0u8; 32];
        for (k, b) in bytes(addr).into_iter().enumerate().take(32) { a[k] = b; }
        nodes.push(Node { edge_start: es.trim().parse().unwrap(), program_address: ContentAddress(a) });
    }
    let edges = get(i, "edges").split_whitespace().map(|e| e.parse::<u16>().unwrap()).collect();
    Predicate { nodes, edges }
}

pub fn parse_mutations(s: &str) -> Vec<Mutation> {
    // [k k|v v];[..]
    s.split(';').filter(|m| !m.trim().is_empty()).map(|m| {
        let m = m.trim().trim_start_matches('[').trim_end_matches(']');
        let (k, v) = m.split_once('|').unwrap();
        Mutation { key: words(k), value: words(v) }
    }).collect()
}

fn types_roundtrip(i: &Input) -> String {
    match get(i, "fn") {
        "predicate" => {
            let p = parse_predicate(i);
            let enc: Vec<u8> = match p.encode() { Ok(it) => it.collect(), Err(e) => return format!("result=encode_err\nerr={e:?}\n") };
            let size = p.encoded_size();
            let dec = Predicate::decode(&enc);
            let same = matches!(&dec, Ok(q) if *q == p);
            format!("result=ok\nencoded={}\nencoded_len={}\nencoded_size={}\nroundtrip_equal={}\n", fmt_bytes(&enc), enc.len(), size, same)
        }
        "mutations" => {
            let ms = parse_mutations(get(i, "mutations"));
            let enc: Vec<i64> = encode_mutations(&ms).collect();
            let dec = decode_mutations(&enc);
            let same = matches!(&dec, Ok(q) if *q == ms);
            format!("result=ok\nencoded={}\nroundtrip_equal={}\n", fmt_words(&enc), same)
        }
        f => format!("unknown_fn={f}\n"),
    }
}

fn types_node_edges(i: &Input) -> String {
    let p = parse_predicate(i);
    let ix: usize = get(i, "ix").parse().unwrap();
    match p.node_edges(ix) {
        None => "result=none\n".into(),
        Some(s) => format!("result=some\nedges={}\n", s.iter().map(|e| e.to_string()).collect::<Vec<_>>().join(" ")),
    }
}

fn asm_bytes(i: &Input) -> String {
    use essential_asm::{effects, from_bytes, to_bytes, Opcode, ToOpcode};
    match get(i, "fn") {
        "opcode" => {
            let b: u8 = get(i, "byte").parse().unwrap();
            match Opcode::try_from(b) {
                Ok(oc) => format!("result=ok\nopcode={oc:?}\nbyte={}\n", u8::from(oc)),
                Err(e) => format!("result=err\nerr={e:?}\n"),
            }
        }
        "from_bytes" | "parse_one" => {
            let bs = bytes(get(i, "bytes"));
            let res: Vec<_> = from_bytes(bs.clone()).take(bs.len() + 2).collect();
            let mut out = String::new();
            let mut ops = vec![];
            let mut dbg = vec![];
            for r in &res {
                match r {
                    Ok(op) => { ops.push(*op); dbg.push(format!("{op:?}")); }
                    Err(e) => { dbg.push(format!("ERR:{e:?}")); break; }
                }
            }
            out += &format!("result=ok\nitems={}\n", dbg.join(";"));
            out += &format!("reencoded={}\n", fmt_bytes(&to_bytes(ops.iter().copied()).collect::<Vec<u8>>()));
            out += &format!("opcodes={}\n", ops.iter().map(|o| u8::from(o.to_opcode()).to_string()).collect::<Vec<_>>().join(" "));
            out
        }
        "roundtrip" => {
            let op = op_by_name(get(i, "op"), get(i, "imm").parse().unwrap_or(0));
            let bs: Vec<u8> = to_bytes([op]).collect();
            let back: Vec<_> = from_bytes(bs.clone()).collect();
            format!("result=ok\nbytes={}\nback={back:?}\nop={op:?}\n", fmt_bytes(&bs))
        }
        "effects_bytes" => {
            let bs = bytes(get(i, "bytes"));
            let e = effects::Effects::from_bits_truncate(get(i, "effects").parse().unwrap());
            format!("result=ok\nvalue={}\n", effects::bytes_contains_any(&bs, e))
        }
        "analyze" => {
            let ops: Vec<Op> = get(i, "ops").split(';').filter(|s| !s.is_empty()).map(|s| {
                let (n, imm) = s.rsplit_once(':').unwrap_or((s, "0"));
                op_by_name(n, imm.parse().unwrap_or(0))
            }).collect();
            format!("result=ok\nbits={}\n", effects::analyze(&ops).bits())
        }
        f => format!("unknown_fn={f}\n"),
    }
}

pub fn parse_ops(s: &str) -> Vec<Op> {
    s.split(';').filter(|x| !x.trim().is_empty()).map(|x| {
        let (n, imm) = x.trim().rsplit_once(':').unwrap_or((x.trim(), "0"));
        op_by_name(n, imm.parse().unwrap_or(0))
    }).collect()
}

#[derive(Clone)]
pub struct MapState(pub std::collections::BTreeMap<(ContentAddress, Vec<i64>), Vec<i64>>);
impl essential_vm::StateRead for MapState {
    type Error = String;
    fn key_range(&self, c: ContentAddress, k: Vec<i64>, n: usize) -> Result<Vec<Vec<i64>>, String> {
        let mut out = vec![];
        let mut key = k;
        for _ in 0..n.min(64) {
            out.push(self.0.get(&(c.clone(), key.clone())).cloned().unwrap_or_default());
            // successor with carry
            let mut done = false;
            for w in key.iter_mut().rev() {
                if *w == i64::MAX { *w = i64::MIN; } else { *w += 1; done = true; break; }
            }
            if !done { break; }
        }
        Ok(out)
    }
}

/// one solution, predicate graph given by nodes/edges, one program (op list) per node,
/// through the real two-pass entry point
fn check_graph(i: &Input) -> String {
    use essential_check::solution::{check_and_compute_solution_set_two_pass, CheckPredicateConfig};
    use essential_types::predicate::Program;
    use essential_types::solution::SolutionSet;
    use std::collections::HashMap;
    let n: usize = get(i, "n").parse().unwrap();
    let ess: Vec<u16> = get(i, "edge_starts").split_whitespace().map(|x| x.parse().unwrap()).collect();
    let edges: Vec<u16> = get(i, "edges").split_whitespace().map(|x| x.parse().unwrap()).collect();
    let mut programs: HashMap<ContentAddress, Arc<Program>> = HashMap::new();
    let mut nodes = vec![];
    for k in 0..n {
        let ops = parse_ops(get(i, &format!("prog{k}")));
        let prog = Program(essential_asm::to_bytes(ops).collect());
        let ca = essential_hash::content_addr(&prog);
        programs.insert(ca.clone(), Arc::new(prog));
        nodes.push(Node { edge_start: ess[k], program_address: ca });
    }
    let pred = Predicate { nodes, edges };
    let paddr = PredicateAddress { contract: ContentAddress([7; 32]), predicate: ContentAddress([9; 32]) };
    let mut preds: HashMap<PredicateAddress, Arc<Predicate>> = HashMap::new();
    preds.insert(paddr.clone(), Arc::new(pred));
    let set = SolutionSet { solutions: vec![Solution { predicate_to_solve: paddr, predicate_data: vec![], state_mutations: vec![] }] };
    let cfg = Arc::new(CheckPredicateConfig { collect_all_failures: get(i, "collect_all") == "1" });
    let state = MapState(Default::default());
    match check_and_compute_solution_set_two_pass(&state, set, preds, programs, cfg) {
        Ok((gas, set)) => format!("result=ok\ngas={gas}\nmutations={}\nmutation_list={}\n", set.solutions[0].state_mutations.len(),
            set.solutions[0].state_mutations.iter().map(fmt_mutation).collect::<Vec<_>>().join(";")),
        Err(e) => format!("result=err\nerr={}\n", format!("{e:?}").replace('\n', " ")),
    }
}

/// a whole program through Vm::exec_ops with a cost table keyed by Push immediates
/// (`costs=imm:cost imm:cost ..`, `default_cost=`), total gas limit `limit=`
fn vm_prog(i: &Input) -> String {
    let ops = parse_ops(get(i, "ops"));
    let mut table = std::collections::HashMap::new();
    for kv in get(i, "costs").split_whitespace() {
        let (k, v) = kv.split_once(':').unwrap();
        table.insert(k.parse::<i64>().unwrap(), v.parse::<u64>().unwrap());
    }
    let default_cost: u64 = get(i, "default_cost").parse().unwrap_or(0);
    let kind_cost: std::collections::HashMap<String, u64> = get(i, "kind_costs").split_whitespace().map(|kv| {
        let (k, v) = kv.split_once('=').unwrap(); (k.to_string(), v.parse().unwrap()) }).collect();
    let cost = move |op: &Op| -> u64 {
        if let Op::Stack(asm::Stack::Push(x)) = op { if let Some(c) = table.get(x) { return *c; } }
        let name = format!("{op:?}");
        if let Some(c) = kind_cost.get(&name) { return *c; }
        default_cost
    };
    let limit = GasLimit { per_yield: GasLimit::DEFAULT_PER_YIELD, total: get(i, "limit").parse().unwrap_or(u64::MAX) };
    let mut vm = Vm::default();
    vm.stack = Stack::try_from(words(get(i, "stack"))).expect("REPLAY-HARNESS: initial stack");
    vm.memory = Memory::try_from(words(get(i, "memory"))).expect("REPLAY-HARNESS: initial memory");
    let r = vm.exec_ops(&ops, test_access(), &NoState, &cost, limit);
    let mut out = String::new();
    match r {
        Ok(g) => out += &format!("result=ok\ngas={g}\n"),
        Err(e) => out += &format!("result=err\nerr_index={}\nerr={}\n", e.0, format!("{:?}", e.1).replace('\n', " ")),
    }
    out += &format!("stack={}\nmemory={}\npc={}\nhalt={}\n", fmt_words(&vm.stack), fmt_words(&vm.memory), vm.pc, vm.halt);
    out
}

/// solutions=contract_tag,pred_tag,slot_len slot_len ..,[k|v];[k|v] // next solution ...
pub fn parse_solutions(s: &str) -> Vec<Solution> {
    s.split("//").filter(|x| !x.trim().is_empty()).map(|x| {
        let parts: Vec<&str> = x.trim().splitn(4, ',').collect();
        let c: u8 = parts[0].trim().parse().unwrap();
        let p: u8 = parts[1].trim().parse().unwrap();
        let data = parts[2].split_whitespace().map(|n| vec![0i64; n.parse().unwrap()]).collect();
        Solution {
            predicate_to_solve: PredicateAddress { contract: ContentAddress([c; 32]), predicate: ContentAddress([p; 32]) },
            predicate_data: data,
            state_mutations: parse_mutations(parts.get(3).copied().unwrap_or("")),
        }
    }).collect()
}

fn check_set_kind(i: &Input) -> String {
    use essential_types::solution::SolutionSet;
    match get(i, "fn") {
        "predicate" => {
            let nn: usize = get(i, "nodes").parse().unwrap();
            let ne: usize = get(i, "edges").parse().unwrap();
            let np: usize = get(i, "preds").parse().unwrap();
            let pos: usize = get(i, "pos").parse().unwrap_or(0);
            let big = Predicate { nodes: vec![Node { edge_start: 0, program_address: ContentAddress([0; 32]) }; nn], edges: vec![0; ne] };
            let r1 = essential_check::predicate::check(&big).is_ok();
            let enc = big.encode().map(|it| it.count());
            let size_ok = match &enc { Ok(n) => *n == big.encoded_size(), Err(_) => true };
            let mut preds = vec![Predicate { nodes: vec![], edges: vec![] }; np];
            if np > 0 { preds[pos] = big; }
            let r2 = essential_check::predicate::check_contract(&preds);
            format!("result=ok\ncheck={r1}\ncontract={}\nencode={}\nencode_size_ok={size_ok}\n", match r2 { Ok(()) => "ok".to_string(), Err(e) => format!("{e:?}") }, enc.is_ok())
        }
        _ => {
            let set = SolutionSet { solutions: parse_solutions(get(i, "solutions")) };
            match essential_check::solution::check_set(&set) {
                Ok(()) => "result=ok\n".into(),
                Err(e) => format!("result=err\nerr={}\n", format!("{e:?}").chars().take(200).collect::<String>()),
            }
        }
    }
}

/// one solution (with declared mutations) whose predicate consists of independent leaf programs
/// prog0..progN-1; optional pre-state `pre=c:k k|v v;..`; through the two-pass entry point
fn check_leaves(i: &Input) -> String {
    use essential_check::solution::{check_and_compute_solution_set_two_pass, CheckPredicateConfig};
    use essential_types::predicate::Program;
    use essential_types::solution::SolutionSet;
    use std::collections::HashMap;
    let n: usize = get(i, "n").parse().unwrap();
    let mut programs: HashMap<ContentAddress, Arc<Program>> = HashMap::new();
    let mut nodes = vec![];
    for k in 0..n {
        let prog = Program(essential_asm::to_bytes(parse_ops(get(i, &format!("prog{k}")))).collect());
        let ca = essential_hash::content_addr(&prog);
        programs.insert(ca.clone(), Arc::new(prog));
        nodes.push(Node { edge_start: u16::MAX, program_address: ca });
    }
    let mut sols = parse_solutions(get(i, "solutions"));
    let paddr = sols[0].predicate_to_solve.clone();
    let pred = Arc::new(Predicate { nodes, edges: vec![] });
    let empty = Arc::new(Predicate { nodes: vec![], edges: vec![] });
    let mut preds: HashMap<PredicateAddress, Arc<Predicate>> = HashMap::new();
    for (k, s) in sols.iter_mut().enumerate() {
        preds.insert(s.predicate_to_solve.clone(), if k == 0 { pred.clone() } else { empty.clone() });
    }
    let _ = paddr;
    let mut pre = std::collections::BTreeMap::new();
    for e in get(i, "pre").split(';').filter(|x| !x.trim().is_empty()) {
        let (c, kv) = e.split_once(':').unwrap();
        let (k, v) = kv.split_once('|').unwrap();
        pre.insert((ContentAddress([c.trim().parse().unwrap(); 32]), words(k)), words(v));
    }
    let cfg = Arc::new(CheckPredicateConfig { collect_all_failures: false });
    match check_and_compute_solution_set_two_pass(&MapState(pre), SolutionSet { solutions: sols }, preds, programs, cfg) {
        Ok((gas, set)) => format!("result=ok\ngas={gas}\nmutations0={}\n",
            set.solutions[0].state_mutations.iter().map(fmt_mutation).collect::<Vec<_>>().join(";")),
        Err(e) => format!("result=err\nerr={}\n", format!("{e:?}").replace('\n', " ").chars().take(300).collect::<String>()),
    }
}

/// BytecodeMapped vs from_bytes on the same bytes (owned and borrowed)
fn vm_mapped(i: &Input) -> String {
    use essential_asm::from_bytes;
    use essential_vm::{BytecodeMapped, OpAccess};
    let bs = bytes(get(i, "bytes"));
    let parsed: Result<Vec<Op>, _> = from_bytes(bs.clone()).collect();
    let mut out = String::new();
    let kind = |e: &essential_asm::FromBytesError| match e {
        essential_asm::FromBytesError::InvalidOpcode(_) => "InvalidOpcode",
        essential_asm::FromBytesError::NotEnoughBytes(_) => "NotEnoughBytes",
    };
    out += &format!("parsed={}\n", match &parsed { Ok(ops) => format!("ok:{ops:?}"), Err(e) => format!("err:{}", kind(e)) });
    let owned = BytecodeMapped::try_from(bs.clone());
    let borrowed = BytecodeMapped::try_from(&bs[..]);
    out += &format!("owned={}\n", match &owned { Ok(m) => format!("ok:{:?}", m.ops().collect::<Vec<_>>()), Err(e) => format!("err:{}", kind(e)) });
    out += &format!("borrowed={}\n", match &borrowed { Ok(m) => format!("ok:{:?}", m.ops().collect::<Vec<_>>()), Err(e) => format!("err:{}", kind(e)) });
    if let (Ok(m), Ok(ops)) = (&owned, &parsed) {
        out += &format!("indices={:?}\n", m.op_indices());
        let mut agree = true;
        for k in (0..ops.len() + 12).chain([usize::MAX]) {
            if m.op(k) != ops.get(k).copied() { agree = false; }
            let a = (&m).op_access(k).map(|r| r.unwrap());
            if a != ops.get(k).copied() { agree = false; }
        }
        out += &format!("random_access_agrees={agree}\n");
        let rebuilt: BytecodeMapped = ops.iter().copied().collect();
        out += &format!("rebuilt_equal={}\n", rebuilt.bytecode() == &bs[..] && rebuilt.op_indices() == m.op_indices());
    }
    out + "result=ok\n"
}

/// scripted state: records every request, answers with a fixed list of values or an error
pub struct ScriptState { pub tag: &'static str, pub ret: Option<Vec<Vec<i64>>>, pub log: std::sync::Mutex<Vec<String>> }
impl essential_vm::StateRead for ScriptState {
    type Error = String;
    fn key_range(&self, c: ContentAddress, k: Vec<i64>, n: usize) -> Result<Vec<Vec<i64>>, String> {
        self.log.lock().unwrap().push(format!("{}|{}|{}|{}", self.tag, fmt_bytes(&c.0), fmt_words(&k), n));
        self.ret.clone().ok_or_else(|| "scripted state error".to_string())
    }
}
pub struct TwoViews(pub ScriptState, pub ScriptState);
impl essential_vm::StateReads for TwoViews {
    type Error = String;
    type Pre = ScriptState;
    type Post = ScriptState;
    fn pre(&self) -> &ScriptState { &self.0 }
    fn post(&self) -> &ScriptState { &self.1 }
}

/// one op with configurable solutions / state: `solution_data=w w|w;..` per solution `sol0`, `sol1`;
/// `contractK`/`predicateK` = 32 bytes; `state_ret=err` or `v v;v`
fn vm_io(i: &Input) -> String {
    let op = op_by_name(get(i, "op"), 0);
    let mut sols = vec![];
    let mut k = 0;
    while i.contains_key(&format!("sol{k}")) {
        let mut c = [0u8; 32]; let mut p = [0u8; 32];
        for (j, b) in bytes(get(i, &format!("contract{k}"))).into_iter().enumerate().take(32) { c[j] = b; }
        for (j, b) in bytes(get(i, &format!("predicate{k}"))).into_iter().enumerate().take(32) { p[j] = b; }
        let data = if get(i, &format!("sol{k}")) == "none" { vec![] } else {
            get(i, &format!("sol{k}")).split('|').filter(|x| *x != "-").map(|x| if x.trim() == "e" { vec![] } else { words(x) }).collect::<Vec<_>>() };
        sols.push(Solution { predicate_to_solve: PredicateAddress { contract: ContentAddress(c), predicate: ContentAddress(p) }, predicate_data: data, state_mutations: vec![] });
        k += 1;
    }
    if sols.is_empty() { sols = test_access().solutions.as_ref().clone(); }
    let access = Access::new(Arc::new(sols), get(i, "index").parse().unwrap_or(0));
    let ret = if get(i, "state_ret") == "err" { None } else {
        Some(get(i, "state_ret").split(';').filter(|x| !x.is_empty()).map(|x| if x == "-" { vec![] } else { words(x) }).collect::<Vec<_>>()) };
    // the repo's own `impl StateReads for (S, P)` supplies the two views
    let st = (ScriptState { tag: "pre", ret: ret.clone(), log: Default::default() }, ScriptState { tag: "post", ret, log: Default::default() });
    let mut vm = Vm::default();
    vm.stack = Stack::try_from(words(get(i, "stack"))).expect("REPLAY-HARNESS: initial stack");
    vm.memory = Memory::try_from(words(get(i, "memory"))).expect("REPLAY-HARNESS: initial memory");
    let r = vm.exec_ops(&[op], access, &st, &|_: &Op| 1, GasLimit::UNLIMITED);
    let mut out = String::new();
    match r {
        Ok(_) => out += "result=ok\n",
        Err(e) => out += &format!("result=err\nerr={}\n", format!("{:?}", e.1).replace('\n', " ")),
    }
    let mut log = st.0.log.lock().unwrap().clone();
    log.extend(st.1.log.lock().unwrap().clone());
    out += &format!("stack={}\nmemory={}\nrequests={}\n", fmt_words(&vm.stack), fmt_words(&vm.memory), log.join(";;"));
    out
}

/// contention stress of the real StdLock: T threads x N read-modify-write closures (with a yield between read and write)
fn lock_stress(i: &Input) -> String {
    let threads: usize = get(i, "threads").parse().unwrap_or(8);
    let n: usize = get(i, "n").parse().unwrap_or(2000);
    let lock = Arc::new(essential_lock::StdLock::new(0u64));
    let mut hs = vec![];
    let mut bad_return = false;
    for _ in 0..threads {
        let l = lock.clone();
        hs.push(std::thread::spawn(move || {
            let mut bad = false;
            for _ in 0..n {
                let r = l.apply(|v| { let x = *v; std::thread::yield_now(); *v = x + 1; x + 1 });
                if r == 0 { bad = true; }
            }
            bad
        }));
    }
    for h in hs { bad_return |= h.join().unwrap(); }
    let fin = lock.apply(|v| *v);
    format!("result=ok\nfinal={fin}\nexpected={}\nbad_return={bad_return}\n", threads * n)
}

/// addresses `a0`, `a1`, .. (32 bytes each), optional `salt`: address helper on every rotation/reversal of the input
/// vs SHA-256 of the ascending concatenation
fn hash_addrs(i: &Input) -> String {
    let mut addrs = vec![];
    let mut k = 0;
    while i.contains_key(&format!("a{k}")) {
        let mut a = [0u8; 32];
        for (j, b) in bytes(get(i, &format!("a{k}"))).into_iter().enumerate().take(32) { a[j] = b; }
        addrs.push(ContentAddress(a)); k += 1;
    }
    let salt: Option<[u8; 32]> = i.get("salt").map(|s| { let mut a = [0u8; 32]; for (j, b) in bytes(s).into_iter().enumerate().take(32) { a[j] = b; } a });
    let via_iter = get(i, "via_iter") == "1";
    let run = |v: &Vec<ContentAddress>| -> ContentAddress {
        let mut v = v.clone();
        match (&salt, via_iter) {
            (Some(s), false) => essential_hash::contract_addr::from_predicate_addrs_slice(&mut v, s),
            (Some(s), true) => essential_hash::contract_addr::from_predicate_addrs(v, s),
            (None, false) => essential_hash::solution_set_addr::from_solution_addrs_slice(&mut v),
            (None, true) => essential_hash::solution_set_addr::from_solution_addrs(v),
        }
    };
    let base = run(&addrs);
    let mut same = true;
    let mut v = addrs.clone();
    for _ in 0..addrs.len().max(1) {
        let k = 1.min(v.len());
        v.rotate_left(k);
        if run(&v) != base { same = false; }
        let mut r = v.clone(); r.reverse();
        if run(&r) != base { same = false; }
    }
    let mut sorted = addrs.clone();
    sorted.sort();
    let mut pre: Vec<u8> = sorted.iter().flat_map(|a| a.0).collect();
    if let Some(s) = &salt { pre.extend_from_slice(s); }
    let reference = ContentAddress(essential_hash::hash_bytes(&pre));
    format!("result=ok\norder_independent={same}\nmatches_reference={}\n", base == reference)
}

/// fixed-width conversions on concrete bytes (`bytes` = 65 bytes, `word`, `slice`)
fn types_convert(i: &Input) -> String {
    use essential_types::convert::*;
    let mut b = [0u8; 65];
    for (j, x) in bytes(get(i, "bytes")).into_iter().enumerate().take(65) { b[j] = x; }
    let w: i64 = get(i, "word").parse().unwrap_or(0);
    let mut ok = true;
    let mut why = String::new();
    let mut chk = |c: bool, m: &str| if !c { ok = false; why.push_str(m); why.push(';'); };
    chk(bytes_from_word(w) == w.to_be_bytes(), "bytes_from_word");
    chk(word_from_bytes(bytes_from_word(w)) == w, "word_from_bytes(bytes_from_word)");
    let b8: [u8; 8] = b[..8].try_into().unwrap();
    chk(bytes_from_word(word_from_bytes(b8)) == b8, "bytes_from_word(word_from_bytes)");
    chk(word_from_bytes(b8) == i64::from_be_bytes(b8), "word_from_bytes be");
    let b32: [u8; 32] = b[..32].try_into().unwrap();
    let b64: [u8; 64] = b[..64].try_into().unwrap();
    let w4 = word_4_from_u8_32(b32);
    chk((0..4).all(|k| w4[k] == i64::from_be_bytes(b32[8 * k..8 * k + 8].try_into().unwrap())), "word_4_from_u8_32 be");
    chk(u8_32_from_word_4(w4) == b32, "u8_32_from_word_4(word_4_from_u8_32)");
    let w8 = word_8_from_u8_64(b64);
    chk((0..8).all(|k| w8[k] == i64::from_be_bytes(b64[8 * k..8 * k + 8].try_into().unwrap())), "word_8_from_u8_64 be");
    chk(u8_64_from_word_8(w8) == b64, "u8_64_from_word_8(word_8_from_u8_64)");
    let sl = bytes(get(i, "slice"));
    let mut pad = [0u8; 8];
    for (j, x) in sl.iter().enumerate().take(8) { pad[j] = *x; }
    chk(word_from_bytes_slice(&sl) == i64::from_be_bytes(pad), "word_from_bytes_slice");
    chk(bool_from_word(w) == match w { 0 => Some(false), 1 => Some(true), _ => None }, "bool_from_word");
    let sig = essential_types::Signature::from(b);
    chk(<[u8; 65]>::from(sig.clone()) == b && sig.0[..] == b[..64] && sig.1 == b[64], "Signature <-> [u8;65]");
    let ca = ContentAddress::from(w4);
    chk(ca.0 == b32 && <[i64; 4]>::from(ca.clone()) == w4 && <[u8; 32]>::from(ca) == b32, "ContentAddress conversions");
    format!("result=ok\nall_ok={ok}\nfailed={why}\n")
}

/// Compute at index 1 of `ops` (index 0 is never executed): the real run from pc = 1 vs a sequential reference that runs
/// every child separately through the real Vm::exec from the documented initial state, applies the documented join and
/// then lets the real VM continue from the joined state.
fn vm_compute(i: &Input) -> String {
    let shape = parse_ops(get(i, "ops"));
    // optional prefix run by the parent before the Compute (e.g. `Push 2; Push 1; Repeat` opens a repeat scope whose counter
    // the children must see); it replaces the never-executed op 0 of the shape
    let prefix = parse_ops(get(i, "prefix"));
    let k = prefix.len();
    let ops: Vec<Op> = if k > 0 { prefix.iter().cloned().chain(shape[1..].iter().cloned()).collect() } else { shape };
    let com = if k > 0 { k } else { 1 };
    let cost_v: u64 = get(i, "cost").parse().unwrap_or(1);
    let cost = move |_: &Op| cost_v;
    let limit = GasLimit { per_yield: GasLimit::DEFAULT_PER_YIELD, total: get(i, "limit").parse().unwrap_or(u64::MAX) };
    let stack0 = words(get(i, "stack"));          // includes the breadth on top
    let mem0 = words(get(i, "memory"));
    let mk = |pc: usize, st: Vec<i64>, mem: Vec<i64>| { let mut vm = Vm::default(); vm.pc = pc;
        vm.stack = Stack::try_from(st).expect("REPLAY-HARNESS: stack"); vm.memory = Memory::try_from(mem).expect("REPLAY-HARNESS: memory"); vm };
    // real
    let mut real = mk(if k > 0 { 0 } else { 1 }, stack0.clone(), mem0.clone());
    let r_real = real.exec_ops(&ops, test_access(), &NoState, &cost, limit);
    let real_s = match &r_real { Ok(g) => format!("ok gas={g} pc={} stack={} memory={}", real.pc, fmt_words(&real.stack), fmt_words(&real.memory)),
                                 Err(_) => "err".to_string() };
    // reference
    let reference = (|| -> Result<String, String> {
        let mut parent = mk(0, stack0.clone(), mem0.clone());
        let mut gas = 0u64;
        if k > 0 { gas = parent.exec_ops(&ops[..k], test_access(), &NoState, &cost, limit).map_err(|e| format!("prefix: {e}"))?; }
        let repeat0 = parent.repeat.clone();
        let mut st: Vec<i64> = parent.stack.to_vec();
        let breadth = st.pop().ok_or("no breadth")?;
        if breadth < 1 { return Err("breadth < 1".into()); }
        gas = gas.checked_add(cost_v).ok_or("gas overflow")?;
        if gas > limit.total { return Err("out of gas at Compute".into()); }
        let mut mem = mem0.clone();
        let mut pc = com;
        let mut halt = false;
        for j in 0..breadth {
            let mut c = mk(com + 1, { let mut s = st.clone(); s.push(j); s }, vec![]);
            c.parent_memory = vec![Arc::new(Memory::try_from(mem0.clone()).unwrap())];
            c.repeat = repeat0.clone();
            let g = c.exec_ops(&ops, test_access(), &NoState, &cost, limit).map_err(|e| format!("child {j}: {e}"))?;
            gas = gas.checked_add(g).ok_or("gas overflow")?;
            mem.extend(Vec::<i64>::from(c.memory.clone()));
            pc = pc.max(c.pc);
            halt |= c.halt;
        }
        if gas > limit.total { return Err("out of gas after join".into()); }
        if mem.len() > Memory::SIZE_LIMIT { return Err("memory limit".into()); }
        let mut vm = mk(pc, st, mem);
        vm.repeat = repeat0;
        if !halt {
            // continue after the join with the remaining budget
            let rest = GasLimit { per_yield: limit.per_yield, total: limit.total - gas };
            let g2 = vm.exec_ops(&ops, test_access(), &NoState, &cost, rest).map_err(|e| format!("tail: {e}"))?;
            gas += g2;
        }
        Ok(format!("ok gas={gas} pc={} stack={} memory={}", vm.pc, fmt_words(&vm.stack), fmt_words(&vm.memory)))
    })();
    let ref_s = match reference { Ok(s) => s, Err(_) => "err".to_string() };
    format!("result=ok\nreal={real_s}\nreference={ref_s}\n")
}

/// native differential checks of the crypto plumbing with real keys: contract sign/recover/verify, the VM's
/// RecoverSecp256k1 / VerifyEd25519 / Sha256 ops against the sign and hash crates
fn crypto_roundtrip(i: &Input) -> String {
    use essential_sign::secp256k1::{PublicKey, Secp256k1, SecretKey};
    use essential_types::{contract::Contract, convert::*};
    let mut out = String::new();
    let seed: u8 = get(i, "seed").parse().unwrap_or(7);
    let len: usize = get(i, "len").parse().unwrap_or(13);
    let sk = SecretKey::from_slice(&[seed.max(1); 32]).unwrap();
    let pk = PublicKey::from_secret_key(&Secp256k1::new(), &sk);
    // (1) contract
    let mut salt = [0u8; 32];
    for (j, b) in bytes(get(i, "salt")).into_iter().enumerate().take(32) { salt[j] = b; }
    let contract = Contract { predicates: vec![], salt };
    let signed = essential_sign::contract::sign(contract.clone(), &sk);
    let rec = essential_sign::contract::recover(&signed);
    out += &format!("contract_recover_is_signer={}\n", matches!(rec, Ok(p) if p == pk));
    out += &format!("contract_verify={}\n", essential_sign::contract::verify(&signed).is_ok());
    // two predicates, presented to the verifier in the other order
    let pa = Predicate { nodes: vec![Node { edge_start: u16::MAX, program_address: ContentAddress([seed; 32]) }], edges: vec![] };
    let pb = Predicate { nodes: vec![Node { edge_start: u16::MAX, program_address: ContentAddress([seed ^ 0x55; 32]) }], edges: vec![] };
    for (x, y) in [(pa.clone(), pb.clone()), (pb, pa)] {
        let mut s2 = essential_sign::contract::sign(Contract { predicates: vec![x, y], salt }, &sk);
        s2.contract.predicates.reverse();
        let r2 = essential_sign::contract::recover(&s2);
        out += &format!("reordered_predicates_recover_signer={}\n", matches!(r2, Ok(p) if p == pk));
    }
    let mut bad = signed.clone(); bad.signature.1 = 9;
    out += &format!("bad_recovery_id_is_error={}\n", essential_sign::contract::recover(&bad).is_err());
    // (2) VM RecoverSecp256k1 vs sign crate
    let digest = essential_hash::hash_bytes(&vec![seed; len]);
    let sig = essential_sign::sign_hash(digest, &sk);
    let mut st: Vec<i64> = word_4_from_u8_32(digest).to_vec();
    st.extend(word_8_from_u8_64(sig.0)); st.push(sig.1 as i64);
    let mut vm = Vm::default();
    vm.stack = Stack::try_from(st).unwrap();
    let r = vm.exec_ops(&[asm::Crypto::RecoverSecp256k1.into()], test_access(), &NoState, &|_: &Op| 1, GasLimit::UNLIMITED);
    out += &format!("vm_recover_matches_encode={}\n", r.is_ok() && vm.stack.to_vec() == essential_sign::encode::public_key(&pk).to_vec());
    // (3) VM Sha256 vs hash crate on `len` bytes
    let data: Vec<u8> = (0..len).map(|k| (k as u8).wrapping_mul(37).wrapping_add(seed)).collect();
    let mut words_: Vec<i64> = data.chunks(8).map(|c| word_from_bytes_slice(c)).collect();
    words_.push(len as i64);
    let mut vm = Vm::default();
    vm.stack = Stack::try_from(words_.clone()).unwrap();
    let r = vm.exec_ops(&[asm::Crypto::Sha256.into()], test_access(), &NoState, &|_: &Op| 1, GasLimit::UNLIMITED);
    out += &format!("vm_sha256_matches_hash_bytes={}\n", r.is_ok() && vm.stack.to_vec() == word_4_from_u8_32(essential_hash::hash_bytes(&data)).to_vec());
    // (4) VM VerifyEd25519 with a real ed25519 key
    use ed25519_dalek::Signer;
    let edk = ed25519_dalek::SigningKey::from_bytes(&[seed; 32]);
    let edsig = edk.sign(&data);
    let mut st = words_.clone();
    st.extend(word_8_from_u8_64(edsig.to_bytes()));
    st.extend(word_4_from_u8_32(edk.verifying_key().to_bytes()));
    let mut vm = Vm::default();
    vm.stack = Stack::try_from(st.clone()).unwrap();
    let r = vm.exec_ops(&[asm::Crypto::VerifyEd25519.into()], test_access(), &NoState, &|_: &Op| 1, GasLimit::UNLIMITED);
    out += &format!("vm_ed25519_accepts_valid={}\n", r.is_ok() && vm.stack.to_vec() == vec![1]);
    let mut st2 = st.clone(); st2[0] ^= 1 << 60;
    if len > 0 {
        let mut vm = Vm::default();
        vm.stack = Stack::try_from(st2).unwrap();
        let r = vm.exec_ops(&[asm::Crypto::VerifyEd25519.into()], test_access(), &NoState, &|_: &Op| 1, GasLimit::UNLIMITED);
        out += &format!("vm_ed25519_rejects_tampered={}\n", r.is_ok() && vm.stack.to_vec() == vec![0]);
    }
    // (5) encodings
    let rs = essential_sign::secp256k1::ecdsa::RecoverableSignature::from_compact(&sig.0, essential_sign::secp256k1::ecdsa::RecoveryId::try_from(sig.1 as i32).unwrap()).unwrap();
    let sw = essential_sign::encode::signature(&rs);
    out += &format!("signature_words_layout={}\n", sw[..8] == word_8_from_u8_64(sig.0) && sw[8] == sig.1 as i64);
    out + "result=ok\n"
}

/// PredicateExists against an independently built pre-image: for every solution k the words of
/// SHA-256(for each slot: len word, words ‖ contract ‖ predicate) must be found, a digest with one flipped bit must not.
/// `solK` = slots separated by '|', a slot is `e` (empty) or words; `none` = no slots
fn vm_pex(i: &Input) -> String {
    use essential_types::convert::*;
    let mut sols = vec![];
    let mut k = 0;
    while i.contains_key(&format!("sol{k}")) {
        let mut c = [0u8; 32]; let mut p = [0u8; 32];
        for (j, b) in bytes(get(i, &format!("contract{k}"))).into_iter().enumerate().take(32) { c[j] = b; }
        for (j, b) in bytes(get(i, &format!("predicate{k}"))).into_iter().enumerate().take(32) { p[j] = b; }
        let data: Vec<Vec<i64>> = if get(i, &format!("sol{k}")) == "none" { vec![] } else {
            get(i, &format!("sol{k}")).split('|').map(|x| if x.trim() == "e" { vec![] } else { words(x) }).collect() };
        sols.push(Solution { predicate_to_solve: PredicateAddress { contract: ContentAddress(c), predicate: ContentAddress(p) }, predicate_data: data, state_mutations: vec![] });
        k += 1;
    }
    let digests: Vec<[u8; 32]> = sols.iter().map(|s| {
        let mut pre: Vec<u8> = vec![];
        for slot in &s.predicate_data {
            pre.extend((slot.len() as i64).to_be_bytes());
            for w in slot { pre.extend(w.to_be_bytes()); }
        }
        pre.extend(s.predicate_to_solve.contract.0);
        pre.extend(s.predicate_to_solve.predicate.0);
        essential_hash::hash_bytes(&pre)
    }).collect();
    let run = |d: [u8; 32]| -> String {
        let access = Access::new(Arc::new(sols.clone()), 0);
        let mut vm = Vm::default();
        vm.stack = Stack::try_from(word_4_from_u8_32(d).to_vec()).unwrap();
        match vm.exec_ops(&[asm::Access::PredicateExists.into()], access, &NoState, &|_: &Op| 1, GasLimit::UNLIMITED) {
            Ok(_) => fmt_words(&vm.stack),
            Err(e) => format!("err {:?}", e.1).replace('\n', " "),
        }
    };
    let mut out = String::new();
    for (k, d) in digests.iter().enumerate() {
        out += &format!("exists_{k}={}\n", run(*d));
        let mut f = *d; f[31] ^= 1;
        if !digests.contains(&f) { out += &format!("flipped_{k}={}\n", run(f)); }
    }
    out + "result=ok\n"
}

/// Vm::eval_ops of an empty program from a given stack: the boolean result comes from the final stack top
fn vm_eval(i: &Input) -> String {
    let mut vm = Vm::default();
    vm.stack = Stack::try_from(words(get(i, "stack"))).expect("REPLAY-HARNESS: initial stack");
    let ops = parse_ops(get(i, "ops"));
    match vm.eval_ops(&ops, test_access(), &NoState, &|_: &Op| 1, GasLimit::UNLIMITED) {
        Ok(b) => format!("result=ok\nvalue={b}\n"),
        Err(e) => format!("result=err\nerr={}\n", format!("{e:?}").replace('\n', " ").chars().take(200).collect::<String>()),
    }
}

/// n solutions, solution k solving its own one-leaf predicate with program `progK`, through the two-pass entry point:
/// which solutions fail, and in which order they are reported
fn check_multi(i: &Input) -> String {
    use essential_check::solution::{check_and_compute_solution_set_two_pass, CheckPredicateConfig};
    use essential_types::predicate::Program;
    use essential_types::solution::SolutionSet;
    use std::collections::HashMap;
    let n: usize = get(i, "n").parse().unwrap();
    let mut programs: HashMap<ContentAddress, Arc<Program>> = HashMap::new();
    let mut preds: HashMap<PredicateAddress, Arc<Predicate>> = HashMap::new();
    let mut sols = vec![];
    for k in 0..n {
        let prog = Program(essential_asm::to_bytes(parse_ops(get(i, &format!("prog{k}")))).collect());
        let ca = essential_hash::content_addr(&prog);
        programs.insert(ca.clone(), Arc::new(prog));
        let pred = Predicate { nodes: vec![Node { edge_start: u16::MAX, program_address: ca }], edges: vec![] };
        let paddr = PredicateAddress { contract: ContentAddress([k as u8 + 1; 32]), predicate: ContentAddress([k as u8 + 1; 32]) };
        preds.insert(paddr.clone(), Arc::new(pred));
        sols.push(Solution { predicate_to_solve: paddr, predicate_data: vec![], state_mutations: vec![] });
    }
    let cfg = Arc::new(CheckPredicateConfig { collect_all_failures: get(i, "collect_all") == "1" });
    match check_and_compute_solution_set_two_pass(&MapState(Default::default()), SolutionSet { solutions: sols }, preds, programs, cfg) {
        Ok((gas, _)) => format!("result=ok\ngas={gas}\n"),
        Err(e) => format!("result=err\nerr={}\n", format!("{e:?}").replace('\n', " ").chars().take(600).collect::<String>()),
    }
}

/// native differential for the third-party (postcard) layer under the solution / solution-set addresses, which the solver does
/// not see: structurally different solutions must have different pre-hash bytes and addresses, a set's address must not depend on
/// the order of its solutions
fn hash_solution_diff(_i: &Input) -> String {
    use essential_types::solution::{Mutation, SolutionSet};
    let pa = |c: u8, p: u8| PredicateAddress { contract: ContentAddress([c; 32]), predicate: ContentAddress([p; 32]) };
    let datas: Vec<Vec<Vec<i64>>> = vec![vec![], vec![vec![]], vec![vec![0]], vec![vec![], vec![]], vec![vec![0, 0]], vec![vec![0], vec![0]], vec![vec![1]]];
    let muts: Vec<Vec<Mutation>> = vec![vec![], vec![Mutation { key: vec![], value: vec![] }], vec![Mutation { key: vec![0], value: vec![] }],
        vec![Mutation { key: vec![], value: vec![0] }], vec![Mutation { key: vec![0], value: vec![0] }],
        vec![Mutation { key: vec![], value: vec![] }, Mutation { key: vec![], value: vec![] }], vec![Mutation { key: vec![0, 0], value: vec![] }]];
    let mut sols = vec![];
    for (c, p) in [(1u8, 1u8), (1, 2), (2, 1)] {
        for d in &datas { for m in &muts {
            if (c, p) != (1, 1) && (!d.is_empty() || !m.is_empty()) { continue; }
            sols.push(Solution { predicate_to_solve: pa(c, p), predicate_data: d.clone(), state_mutations: m.clone() });
        } }
    }
    let mut pre_distinct = true; let mut addr_distinct = true; let mut first = String::new();
    for a in 0..sols.len() { for b in a + 1..sols.len() {
        if essential_hash::serialize(&sols[a]) == essential_hash::serialize(&sols[b]) { pre_distinct = false; if first.is_empty() { first = format!("{:?} vs {:?}", sols[a], sols[b]); } }
        if essential_hash::content_addr(&sols[a]) == essential_hash::content_addr(&sols[b]) { addr_distinct = false; }
    } }
    let s1 = SolutionSet { solutions: vec![sols[1].clone(), sols[9].clone(), sols[20].clone()] };
    let s2 = SolutionSet { solutions: vec![sols[20].clone(), sols[1].clone(), sols[9].clone()] };
    let s3 = SolutionSet { solutions: vec![sols[1].clone(), sols[9].clone(), sols[21].clone()] };
    format!("solutions={}\npre_hash_bytes_distinct={pre_distinct}\naddresses_distinct={addr_distinct}\nset_order_independent={}\nset_sensitive_to_member={}\nfirst_collision={}\nresult=ok\n",
        sols.len(), essential_hash::content_addr(&s1) == essential_hash::content_addr(&s2), essential_hash::content_addr(&s1) != essential_hash::content_addr(&s3),
        first.replace('\n', " ").chars().take(300).collect::<String>())
}
