#!/usr/bin/env python3
"""Driver for the solver-based checks of essential-base (see DESIGN.md).

  python3-vt run.py <ID> [--tier quick|thorough]     decide one property
  python3-vt run.py <ID> --replay <path>             re-run a stored counterexample natively
  python3-vt run.py --setup                          offline warm-up / self-checks

exit 0: every discharged obligation held within its bound (KNOWN-FINDING lines allowed)
exit 1: reproduced, unlisted counterexample -> `VIOLATION property=<id> replay=<path>`
exit 2: nothing could be explored (the tree does not build / no obligation discharged); partial runs exit 0 with INCONCLUSIVE lines"""
import argparse, hashlib, json, os, re, sys, time, traceback

HERE = os.path.dirname(os.path.abspath(__file__))
sys.path.insert(0, os.path.join(HERE, "lib"))
import scratch, kanirun, evidence, props  # noqa: E402
from scratch import Inconclusive  # noqa: E402


def load_known():
    p = os.path.join(HERE, "known_findings.json")
    if not os.path.exists(p):
        return []
    return json.load(open(p)).get("findings", [])


def match_known(known, pid, key_text):
    """A finding suppresses a counterexample only when its `match` regex matches the
    obligation/role text of the counterexample and it is an open finding (not `fixed`)."""
    for k in known:
        if k.get("status") == "fixed":
            continue
        if pid in k.get("properties", [k.get("property")]) and re.search(k["match"], key_text):
            return k
    return None


def save_replay(pid, payload):
    os.makedirs(os.path.join(HERE, "replays"), exist_ok=True)
    h = hashlib.sha1(json.dumps(payload, sort_keys=True, default=str).encode()).hexdigest()[:10]
    path = os.path.join(HERE, "replays", f"{pid}-{h}.json")
    json.dump(payload, open(path, "w"), indent=1, default=str)
    return path


def run_property(pid, tier, seed):
    t0 = time.time()
    spec = props.PROPS[pid]
    known = load_known()
    obligations, violations, known_hits, native_validations = [], [], [], 0
    sc = None
    try:
        sc = scratch.make_scratch(pid.lower())
        # ---------------- engine M ----------------
        m_sel = props.m_harnesses(pid, tier)
        if m_sel:
            import mrun
            print(f"[{time.time()-t0:6.0f}s] engine M: {len(m_sel)} harness(es)", flush=True)
            for ob, viol in mrun.run(pid, tier, seed, sc, m_sel):
                if viol:
                    native_validations += viol.get("native_runs", 0)
                    if not viol.get("reproduced"):
                        ob["verdict"] = "inconclusive"
                        ob["why"] = "counterexample did not reproduce natively: " + viol.get("why", "")
                    else:
                        kf = match_known(known, pid, viol["key"])
                        if kf:
                            known_hits.append(dict(id=kf.get("id"), what=kf["what"], obligation=ob["name"]))
                            ob["verdict"] = "known-finding"
                        else:
                            path = save_replay(pid, viol["payload"])
                            violations.append(dict(obligation=ob["name"], replay=path, what=viol["key"]))
                native_validations += ob.pop("native_validations", 0)
                obligations.append(ob)
        # ---------------- engine K ----------------
        k_sel = props.k_harnesses(pid, tier, os.path.join(HERE, "kani-harness", "src"))
        if k_sel:
            print(f"[{time.time()-t0:6.0f}s] engine K: {len(k_sel)} harness(es)", flush=True)
            info = scratch.apply_k_rewrites(sc)
            kh = scratch.setup_k_crate(sc)
            kcfg = props.K_TIERS[tier]
            res, meta = kanirun.run_kani(kh, [h for h, _ in k_sel], jobs=kcfg["jobs"],
                                         harness_timeout=kcfg["timeout"],
                                         log_path=os.path.join(sc, "kani.log"))
            for h, hmeta in k_sel:
                r = res[h]
                ob = dict(engine="K", name=h, verdict=r["verdict"], why=r.get("why", ""),
                          bound=hmeta.get("bound", "see harness source"),
                          functions=hmeta.get("functions", []),
                          queries=r.get("n_checks", 0),
                          paths=(r.get("stats") or {}).get("vccs_remaining", 0),
                          solver_s=(r.get("stats") or {}).get("runtime_decision_procedure_s", 0),
                          wall_s=r.get("duration_s"), covers=list(r.get("covers", (0, 0))),
                          nonvacuous=r.get("covers", (0, 0))[0] > 0,
                          sample=dict(harness=h, verdict=r["verdict"],
                                      cover_witnesses_satisfied=r.get("covers", (0, 0))[0],
                                      checks=r.get("n_checks", 0),
                                      cbmc=(r.get("stats") or {})))
                if r["verdict"] == "fail":
                    descs = sorted({f'{c.get("description","")} @ {c.get("location",{}).get("file","")}:'
                                    f'{c.get("location",{}).get("line","")}' for c in r["failed_checks"]
                                    if c.get("status") == "Failure"})
                    key_text = h + " :: " + " | ".join(descs)
                    test_src = kanirun.concrete_playback(kh, h)
                    reproduced, out = (False, "no concrete playback produced")
                    if test_src:
                        reproduced, out = kanirun.native_replay(kh, h, test_src)
                        native_validations += 1
                    payload = dict(property=pid, engine="K", harness=h, failed_checks=descs,
                                   playback_test=test_src, reproduced_natively=reproduced,
                                   native_output_tail=out[-1500:])
                    path = save_replay(pid, payload)
                    ob["sample"]["failed_checks"] = descs
                    if not reproduced:
                        ob["verdict"] = "inconclusive"
                        ob["why"] = "counterexample did not reproduce natively (encoding/stub problem)"
                    else:
                        kf = match_known(known, pid, key_text)
                        if kf:
                            known_hits.append(dict(id=kf.get("id"), what=kf["what"], obligation=h))
                            ob["verdict"] = "known-finding"
                        else:
                            violations.append(dict(obligation=h, replay=path, what=descs))
                obligations.append(ob)
    finally:
        scratch.remove_scratch(sc)
    wall = time.time() - t0
    evidence.write(pid, tier, seed, wall, obligations, len(violations),
                   known_hits, props.assumptions_for(pid),
                   extra=dict(native_validations=native_validations,
                              outside_the_claim=spec.get("outside", []),
                              tools=props.TOOLS))
    for k in known_hits:
        print(f"KNOWN-FINDING: property={pid} {k['what']} [{k['obligation']}]")
    for o in obligations:
        if o["verdict"] in ("inconclusive", "vacuous"):
            print(f"INCONCLUSIVE: property={pid} obligation={o['name']} ({o.get('why','cover witness unreachable')})")
    n_ok = sum(1 for o in obligations if o["verdict"] in ("pass", "known-finding"))
    print(f"{pid} tier={tier}: {n_ok}/{len(obligations)} obligations discharged, "
          f"{len(violations)} violation(s), {len(known_hits)} known finding(s), {wall:.0f}s")
    if violations:
        for v in violations:
            print(f"VIOLATION property={pid} replay={v['replay']}")
            print(f"  obligation {v['obligation']}: {v['what']}")
        return 1
    if not obligations or n_ok == 0:
        print(f"{pid}: no obligation could be discharged -> nothing was explored, inconclusive")
        return 2
    if n_ok * 2 < len(obligations):
        print(f"{pid}: fewer than half of the obligations could be discharged; nothing explored violates the property (see the INCONCLUSIVE lines)")
    return 0


def main():
    ap = argparse.ArgumentParser()
    ap.add_argument("pid", nargs="?")
    ap.add_argument("--tier", default=os.environ.get("VERIF_TIER", "quick"))
    ap.add_argument("--replay")
    ap.add_argument("--setup", action="store_true")
    a = ap.parse_args()
    seed = int(os.environ.get("VERIF_SEED", "0") or 0)
    if a.setup:
        import setup_check
        sys.exit(setup_check.main())
    if a.pid not in props.PROPS:
        print(f"unknown or unclaimed property {a.pid}")
        sys.exit(2)
    if a.replay:
        import replay
        sys.exit(replay.main(a.pid, a.replay))
    try:
        rc = run_property(a.pid, a.tier, seed)
    except Inconclusive as e:
        print(f"INCONCLUSIVE: property={a.pid} {e}")
        rc = 2
    sys.exit(rc)


if __name__ == "__main__":
    main()
