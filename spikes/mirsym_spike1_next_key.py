#!/usr/bin/env python3-vt
"""Spike: symbolic execution of rustc MIR text (one function) with z3.
Only what `solution::next_key` needs.  Purpose: measure feasibility."""
import re, sys, copy, time
import z3

MIR = open(sys.argv[1]).read()

# ---------------------------------------------------------------- parsing
def get_fn(name):
    m = re.search(r'^fn ' + re.escape(name) + r'\(.*?^}\n', MIR, re.S | re.M)
    assert m, name
    return m.group(0)

class Fn:
    def __init__(self, text):
        self.text = text
        head = text.split('\n', 1)[0]
        self.args = re.findall(r'(_\d+): ', head.split(') ->')[0])
        self.types = dict(re.findall(r'let (?:mut )?(_\d+): ([^;]+);', text))
        for a, t in re.findall(r'(_\d+): ([^,)]+(?:<[^)]*>)?)', head.split(') ->')[0]):
            self.types.setdefault(a, t)
        self.blocks = {}
        for m in re.finditer(r'^    (bb\d+)(?: \(cleanup\))?: \{\n(.*?)^    \}', text, re.S | re.M):
            lines = [l.strip() for l in m.group(2).strip().split('\n') if l.strip()]
            self.blocks[m.group(1)] = lines

# ---------------------------------------------------------------- values
class Box:
    def __init__(self, v=None): self.v = v
class PVec:
    def __init__(self, elems): self.elems = elems        # list[Box]
class SliceRef:
    def __init__(self, vec, lo, hi): self.vec, self.lo, self.hi = vec, lo, hi
class Ref:
    def __init__(self, box): self.box = box
class Enum:
    def __init__(self, variant, fields): self.variant, self.fields = variant, fields   # fields: list[Box]
class IterMut:
    def __init__(self, sl, rev=False): self.sl, self.rev = sl, rev; self.lo, self.hi = sl.lo, sl.hi

VARIANT = {'None': 0, 'Some': 1}

class State:
    def __init__(self, fn):
        self.fn = fn; self.locals = {}; self.pc = []; self.bb = 'bb0'; self.panics = []
    def local(self, n):
        return self.locals.setdefault(n, Box())

class Engine:
    def __init__(self):
        self.solver = z3.Solver(); self.queries = 0; self.paths = 0; self.solver_time = 0.0
    def feasible(self, pc, extra):
        self.queries += 1; t = time.time()
        self.solver.push(); self.solver.add(*pc, extra); r = self.solver.check(); self.solver.pop()
        self.solver_time += time.time() - t
        return r == z3.sat

    # place -> Box
    def place(self, st, s):
        s = s.strip()
        m = re.fullmatch(r'\(\*(.+)\)', s)
        if m:
            r = self.place(st, m.group(1)).v
            assert isinstance(r, Ref), (s, r)
            return r.box
        m = re.fullmatch(r'\(\((.+) as (\w+)\)\.(\d+): .*\)', s)
        if m:
            e = self.place(st, m.group(1)).v
            assert isinstance(e, Enum) and e.variant == VARIANT[m.group(2)], s
            return e.fields[int(m.group(3))]
        m = re.fullmatch(r'\((_\d+)\.(\d+): [^)]*\)', s)
        if m:
            t = st.local(m.group(1)).v
            return t[int(m.group(2))]
        assert re.fullmatch(r'_\d+', s), s
        return st.local(s)

    def operand(self, st, s):
        s = s.strip()
        if s.startswith('copy ') or s.startswith('move '):
            return self.place(st, s[5:]).v
        m = re.fullmatch(r'const (-?\d+)_i64', s)
        if m: return z3.BitVecVal(int(m.group(1)), 64)
        if s == 'const core::num::<impl i64>::MIN': return z3.BitVecVal(-2**63, 64)
        raise NotImplementedError(s)

    def call(self, st, dest, callee, args):
        a = [self.operand(st, x) for x in split_args(args)]
        if callee.endswith('as DerefMut>::deref_mut'):
            vec = a[0].box.v; r = SliceRef(vec, 0, len(vec.elems))
        elif callee.endswith('>::iter_mut'):
            r = IterMut(a[0])
        elif callee.endswith('as Iterator>::rev'):
            a[0].rev = True; r = a[0]
        elif callee.endswith('as IntoIterator>::into_iter'):
            r = a[0]
        elif callee.endswith('as Iterator>::next'):
            it = a[0].box.v
            if it.lo >= it.hi: r = Enum(0, [])
            else:
                if it.rev: it.hi -= 1; ix = it.hi
                else: ix = it.lo; it.lo += 1
                r = Enum(1, [Box(Ref(it.sl.vec.elems[ix]))])
        else:
            raise NotImplementedError(callee)
        self.place(st, dest).v = r

    def run(self, fn, init_locals, pc0, on_return):
        st = State(fn); st.pc = list(pc0)
        for k, v in init_locals.items(): st.local(k).v = v
        work = [st]
        while work:
            st = work.pop()
            while True:
                lines = fn.blocks[st.bb]
                for ln in lines[:-1]:
                    self.stmt(st, ln)
                term = lines[-1]
                nxt = self.term(st, term, work)
                if nxt is None: break
                st.bb = nxt
            if st.bb == 'RETURN':
                self.paths += 1
                on_return(self, st)

    def stmt(self, st, ln):
        if ln.startswith(('StorageLive', 'StorageDead', 'nop', 'FakeRead', 'PlaceMention')): return
        m = re.fullmatch(r'(.+?) = (.+);', ln); assert m, ln
        dest, rv = m.group(1), m.group(2)
        m2 = re.fullmatch(r'&mut (.+)', rv)
        if m2: self.place(st, dest).v = Ref(self.place(st, m2.group(1))); return
        m2 = re.fullmatch(r'AddWithOverflow\((.+), (.+)\)', rv)
        if m2:
            x, y = self.operand(st, m2.group(1)), self.operand(st, m2.group(2))
            ovf = z3.Not(z3.BVAddNoOverflow(x, y, True))
            self.place(st, dest).v = [Box(x + y), Box(ovf)]; return
        m2 = re.fullmatch(r'Option::<.*>::None', rv)
        if m2: self.place(st, dest).v = Enum(0, []); return
        m2 = re.fullmatch(r'Option::<.*>::Some\((.+)\)', rv)
        if m2: self.place(st, dest).v = Enum(1, [Box(self.operand(st, m2.group(1)))]); return
        self.place(st, dest).v = self.operand(st, rv)

    def term(self, st, t, work):
        if t.startswith('goto -> '): return t[8:-1]
        if t == 'return;': st.bb = 'RETURN'; return None
        m = re.fullmatch(r'drop\(.+\) -> \[return: (bb\d+), .*\];', t)
        if m: return m.group(1)
        m = re.fullmatch(r'(.+?) = (.+?)\((.*)\) -> \[return: (bb\d+), .*\];', t)
        if m:
            self.call(st, m.group(1), m.group(2), m.group(3)); return m.group(4)
        m = re.fullmatch(r'assert\(!move (.+?), ".*?"(?:, .*)?\) -> \[success: (bb\d+), .*\];', t)
        if m:
            c = self.place(st, m.group(1)).v
            if self.feasible(st.pc, c):
                st2 = copy.copy(st); st.panics.append((t, list(st.pc) + [c]))
            st.pc.append(z3.Not(c)); return m.group(2)
        m = re.fullmatch(r'switchInt\((.+)\) -> \[(.*)\];', t)
        if m:
            v = self.operand(st, m.group(1)); arms = [x.strip() for x in m.group(2).split(',')]
            if z3.is_bv(v) or z3.is_bool(v):
                succ = []; others = []
                for arm in arms:
                    k, bb = arm.split(': ')
                    if k == 'otherwise': succ.append((z3.And(*others) if others else z3.BoolVal(True), bb))
                    else:
                        kv = z3.BitVecVal(int(k), v.size()) if z3.is_bv(v) else None
                        succ.append((v == kv, bb)); others.append(v != kv)
                feas = [(c, bb) for c, bb in succ if self.feasible(st.pc, c)]
                for c, bb in feas[1:]:
                    s2 = copy.deepcopy(st); s2.pc.append(c); s2.bb = bb
                    # continue s2 from its target block
                    work.append(s2)
                c, bb = feas[0]; st.pc.append(c); return bb
            raise NotImplementedError(t)
        raise NotImplementedError(t)

def split_args(s):
    out, depth, cur = [], 0, ''
    for ch in s:
        if ch in '(<[': depth += 1
        if ch in ')>]': depth -= 1
        if ch == ',' and depth == 0: out.append(cur); cur = ''
        else: cur += ch
    if cur.strip(): out.append(cur)
    return out

# discriminant handling: patch stmt for `_10 = discriminant(_8);`
_old_stmt = Engine.stmt
def stmt2(self, st, ln):
    m = re.fullmatch(r'(.+?) = discriminant\((.+)\);', ln)
    if m:
        e = self.place(st, m.group(2)).v
        self.place(st, m.group(1)).v = z3.BitVecVal(e.variant, 64); return
    return _old_stmt(self, st, ln)
Engine.stmt = stmt2

# ---------------------------------------------------------------- harness
def main():
    fn = Fn(get_fn('next_key'))
    eng = Engine(); viol = []
    t0 = time.time()
    MAXW, MINW = z3.BitVecVal(2**63 - 1, 64), z3.BitVecVal(-2**63, 64)
    for L in range(0, 5):
        ws = [z3.BitVec(f'k{L}_{i}', 64) for i in range(L)]
        def on_return(eng, st, ws=ws, L=L):
            if st.panics: viol.append(('panic', st.panics)); return
            r = st.local('_0').v
            all_max = z3.And(*[w == MAXW for w in ws]) if ws else z3.BoolVal(True)
            if r.variant == 0:
                bad = z3.Not(all_max)
            else:
                out = [b.v for b in r.fields[0].v.elems]
                # spec: successor with carry from the right
                conds = []; carry = z3.BoolVal(True)
                for i in reversed(range(L)):
                    exp = z3.If(carry, z3.If(ws[i] == MAXW, MINW, ws[i] + 1), ws[i])
                    conds.append(out[i] == exp)
                    carry = z3.And(carry, ws[i] == MAXW)
                bad = z3.Or(all_max, z3.Not(z3.And(*conds)) if conds else z3.BoolVal(False))
            if eng.feasible(st.pc, bad): viol.append(('spec', L))
        eng.run(fn, {'_1': PVec([Box(w) for w in ws])}, [], on_return)
    print('paths', eng.paths, 'queries', eng.queries, 'solver_s', round(eng.solver_time, 3), 'wall_s', round(time.time() - t0, 3), 'violations', viol)

main()
