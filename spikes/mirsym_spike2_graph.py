#!/usr/bin/env python3-vt
"""Spike 2: path-forking symbolic execution of rustc MIR text with z3.
Replay-based forking (a path = list of decisions), models for the std calls met in
check/solution.rs graph helpers.  Probe only -- not the framework."""
import re, sys, time
import z3

# ------------------------------------------------------------------ MIR loading
class Fn:
    def __init__(self, name, text):
        self.name, self.text = name, text
        head = text.split('\n', 1)[0]
        self.types = {}
        argtxt = head[head.index('(_') + 1: head.rfind(') ->')] if '(_' in head else ''
        # arg types: split by top-level commas
        for part in split_top(argtxt, ','):
            part = part.strip()
            if part and re.match(r'_\d+: ', part):
                k, t = part.split(': ', 1); self.types[k] = t.strip()
        for m in re.finditer(r'let (?:mut )?(_\d+): ([^;]+);', text):
            self.types[m.group(1)] = m.group(2).strip()
        self.blocks = {}
        for m in re.finditer(r'^    (bb\d+)(?: \(cleanup\))?: \{\n(.*?)^    \}', text, re.S | re.M):
            self.blocks[m.group(1)] = [l.strip() for l in m.group(2).strip().split('\n') if l.strip()]

def split_top(s, sep):
    out, depth, cur, i = [], 0, '', 0
    while i < len(s):
        ch = s[i]
        if ch in '([{<': depth += 1
        elif ch in ')]}': depth -= 1
        elif ch == '>' and s[i-1:i+1] != '->': depth -= 1
        if depth == 0 and s.startswith(sep, i):
            out.append(cur); cur = ''; i += len(sep); continue
        cur += ch; i += 1
    out.append(cur)
    return out

FUNCS = {}
def load(path):
    txt = open(path).read()
    for m in re.finditer(r'^fn (.+?)\((?:.*?)\) -> .*? \{\n.*?^\}\n', txt, re.S | re.M):
        name = m.group(1)
        FUNCS[name] = Fn(name, m.group(0))

def find_fn(callee):
    base = re.sub(r'::<[^>]*>$', '', callee)          # strip turbofish at end
    base = re.sub(r'::<.*?>', '', base)
    if base in FUNCS: return FUNCS[base]
    cands = [f for n, f in FUNCS.items() if n.endswith('::' + base.split('::')[-1]) and ('closure' not in n)]
    tail = base.split('::')[-1]
    cands = [f for f in cands if re.sub(r'<impl at [^>]*>::', '', f.name).split('::')[-1] == tail]
    if len(cands) == 1: return cands[0]
    return None

# ------------------------------------------------------------------ values
class Box:
    __slots__ = ('v',)
    def __init__(self, v=None): self.v = v
class Ref:
    def __init__(self, box): self.box = box
class PVec:                     # Vec / array storage
    def __init__(self, elems): self.elems = elems
class Slice:                    # view (what &[T] and &Vec deref give)
    def __init__(self, vec, lo, hi): self.vec, self.lo, self.hi = vec, lo, hi
    def cells(self): return self.vec.elems[self.lo:self.hi]
class Enum:
    def __init__(self, variant, fields, name=None): self.variant, self.fields, self.name = variant, fields, name
class Struct:
    def __init__(self, fields, name=None): self.fields, self.name = fields, name
class Closure:
    def __init__(self, fn, fields): self.fn, self.fields = fn, fields
class PMap:
    def __init__(self): self.items = []          # list of (key value, Box)
class PSet:
    def __init__(self): self.items = []
class It:                       # iterator object
    def __init__(self, kind, **kw): self.kind = kind; self.__dict__.update(kw)
class Model:                    # harness-provided callable
    def __init__(self, f): self.f = f

VAR_IX = {'None': 0, 'Some': 1, 'Ok': 0, 'Err': 1, 'Continue': 0, 'Break': 1}
INT_BITS = {'u8': 8, 'u16': 16, 'u32': 32, 'u64': 64, 'usize': 64, 'i8': 8, 'i16': 16, 'i32': 32, 'i64': 64, 'isize': 64, 'u128': 128, 'i128': 128}
def signed(t): return t[0] == 'i'
def mk_none(): return Enum(0, [], 'None')
def mk_some(v): return Enum(1, [Box(v)], 'Some')
def bv(v, bits): return z3.BitVecVal(v, bits)
def conc(t):
    t = z3.simplify(t)
    return t.as_long() if z3.is_bv_value(t) else None

class Panic(Exception): pass
class Infeasible(Exception): pass
class Unmodelled(Exception): pass

# ------------------------------------------------------------------ engine
class Engine:
    def __init__(self):
        self.solver = z3.Solver(); self.queries = 0; self.solver_time = 0.0
        self.paths = 0; self.pending = [[]]; self.max_steps = 200000
    # -- decisions
    def feasible(self, extra):
        self.queries += 1; t = time.time()
        self.solver.push(); self.solver.add(extra); r = self.solver.check(); self.solver.pop()
        self.solver_time += time.time() - t
        return r == z3.sat
    def decide(self, alts):
        """alts: list of z3 Bool, mutually exclusive & exhaustive.  Returns chosen index."""
        # constant folding
        simp = [z3.simplify(a) for a in alts]
        trues = [i for i, a in enumerate(simp) if z3.is_true(a)]
        if trues: return trues[0]
        live = [i for i, a in enumerate(simp) if not z3.is_false(a)]
        if self.pos < len(self.prefix):
            i = self.prefix[self.pos]; self.pos += 1
            self.solver.add(alts[i]); self.pc.append(alts[i]); return i
        feas = [i for i in live if self.feasible(alts[i])]
        if not feas: raise Infeasible()
        for j in feas[1:]:
            self.pending.append(self.prefix[:self.pos] + [j])
        i = feas[0]
        self.prefix = self.prefix[:self.pos] + [i]; self.pos += 1
        self.solver.add(alts[i]); self.pc.append(alts[i]); return i
    def branch(self, cond):
        return self.decide([cond, z3.Not(cond)]) == 0
    def concretize(self, term, cap=64):
        """fork over all feasible concrete values of a bit-vector term"""
        c = conc(term)
        if c is not None: return c
        # enumerate feasible values deterministically (sorted) under current pc
        vals = []
        self.solver.push()
        while True:
            self.queries += 1
            if self.solver.check() != z3.sat: break
            v = self.solver.model().eval(term, model_completion=True).as_long()
            vals.append(v); self.solver.add(term != v)
            if len(vals) > cap: self.solver.pop(); raise Unmodelled('concretize cap exceeded')
        self.solver.pop()
        vals.sort()
        i = self.decide([term == bv(v, term.size()) for v in vals])
        return vals[i]

    def explore(self, harness):
        results = []
        while self.pending:
            self.prefix = self.pending.pop(); self.pos = 0; self.pc = []; self.steps = 0
            self.solver.push()
            try:
                out = harness(self); results.append(('ok', out)); self.paths += 1
            except Panic as p:
                results.append(('panic', (str(p), list(self.pc), self.model()))); self.paths += 1
            except Infeasible:
                pass
            finally:
                self.solver.pop()
        return results
    def model(self):
        if self.solver.check() == z3.sat:
            m = self.solver.model(); return {str(d): m[d] for d in m.decls()}
        return None
    def check_prop(self, bad):
        """is `bad` satisfiable under the current path condition? returns model or None"""
        self.queries += 1; t = time.time()
        self.solver.push(); self.solver.add(bad); r = self.solver.check()
        m = None
        if r == z3.sat:
            mm = self.solver.model(); m = {str(d): mm[d] for d in mm.decls()}
        self.solver.pop(); self.solver_time += time.time() - t
        return m

    # -- places / operands
    def place(self, fr, s):
        s = s.strip()
        if re.fullmatch(r'_\d+', s): return fr.setdefault(s, Box())
        assert s[0] == '(' and s[-1] == ')', s
        inner = s[1:-1]
        if inner[0] == '*':
            r = self.place(fr, inner[1:]).v
            if isinstance(r, Ref): return r.box
            raise Unmodelled('deref of ' + type(r).__name__ + ' in ' + s)
        parts = split_top(inner, ' as ')
        if len(parts) == 2 and ':' not in parts[1]:
            e = self.place(fr, parts[0]).v
            assert isinstance(e, Enum), (s, e)
            assert e.variant == VAR_IX.get(parts[1].strip(), e.variant), (s, e.variant)
            return Box(e)  # downcast: same enum; field access follows
        # field:  <place>.<n>: <type>
        m = re.match(r'^(.*)\.(\d+): ', inner)
        # find the top-level split: last ".N: " at depth 0
        depth = 0; pos = None
        for i, ch in enumerate(inner):
            if ch in '([{<': depth += 1
            elif ch in ')]}' or (ch == '>' and inner[i-1] != '-'): depth -= 1
            elif ch == '.' and depth == 0:
                mm = re.match(r'\.(\d+): ', inner[i:])
                if mm: pos = (i, int(mm.group(1))); break
        assert pos, s
        base = self.place(fr, inner[:pos[0]]).v
        if isinstance(base, (Struct, Enum, Closure)): return base.fields[pos[1]]
        if isinstance(base, list): return base[pos[1]]
        raise Unmodelled('field of ' + type(base).__name__ + ' in ' + s)

    def const(self, s, ty=None):
        m = re.fullmatch(r'(-?\d+)_([iu]\d+|[iu]size)', s)
        if m: return bv(int(m.group(1)), INT_BITS[m.group(2)])
        m = re.fullmatch(r'core::num::<impl ([iu]\w+)>::(MAX|MIN)', s)
        if m:
            t = m.group(1); b = INT_BITS[t]
            v = (2**(b-1) - 1 if signed(t) else 2**b - 1) if m.group(2) == 'MAX' else (-2**(b-1) if signed(t) else 0)
            return bv(v, b)
        if s in ('true', 'false'): return z3.BoolVal(s == 'true')
        if s.startswith('"'): return s
        if s.startswith('ZeroSized: {closure@'):
            return Closure(closure_fn(s[len('ZeroSized: '):]), [])
        if 'promoted[' in s: return Ref(Box(PVec([])))        # only empty-array promoteds met here
        if s.startswith('std::option::Option::<') and s.endswith('::None'): return mk_none()
        raise Unmodelled('const ' + s)

    def operand(self, fr, s):
        s = s.strip()
        if s.startswith('no_retag '): s = s[9:]
        if s.startswith(('copy ', 'move ')): return self.place(fr, s[5:]).v
        if s.startswith('const '): return self.const(s[6:])
        raise Unmodelled('operand ' + s)

    # -- rvalues
    BIN = {'Eq': lambda a, b, sg: a == b, 'Ne': lambda a, b, sg: a != b,
           'Lt': lambda a, b, sg: (a < b) if sg else z3.ULT(a, b), 'Le': lambda a, b, sg: (a <= b) if sg else z3.ULE(a, b),
           'Gt': lambda a, b, sg: (a > b) if sg else z3.UGT(a, b), 'Ge': lambda a, b, sg: (a >= b) if sg else z3.UGE(a, b),
           'Add': lambda a, b, sg: a + b, 'Sub': lambda a, b, sg: a - b, 'BitAnd': lambda a, b, sg: a & b, 'BitOr': lambda a, b, sg: a | b}
    def rvalue(self, fr, fn, dest, rv):
        m = re.fullmatch(r'&(?:mut )?(.+)', rv)
        if m and not rv.startswith('&raw'): return Ref(self.place(fr, m.group(1)))
        m = re.fullmatch(r'(\w+)\((.+)\)', rv)
        if m and m.group(1) in self.BIN:
            a, b = [self.operand(fr, x) for x in split_top(m.group(2), ', ')]
            sg = self.is_signed(fn, dest, split_top(m.group(2), ', ')[0])
            return self.BIN[m.group(1)](a, b, sg)
        if m and m.group(1) in ('AddWithOverflow', 'SubWithOverflow'):
            xs = split_top(m.group(2), ', '); a, b = [self.operand(fr, x) for x in xs]
            sg = self.is_signed(fn, None, xs[0])
            if m.group(1) == 'AddWithOverflow':
                ovf = z3.Not(z3.And(z3.BVAddNoOverflow(a, b, sg), z3.BVAddNoUnderflow(a, b) if sg else z3.BoolVal(True))); r = a + b
            else:
                ovf = z3.Not(z3.And(z3.BVSubNoUnderflow(a, b, sg), z3.BVSubNoOverflow(a, b) if sg else z3.BoolVal(True))); r = a - b
            return [Box(r), Box(ovf)]
        if m and m.group(1) == 'discriminant':
            e = self.place(fr, m.group(2)).v; return bv(e.variant, 64)
        if m and m.group(1) == 'Not':
            a = self.operand(fr, m.group(2)); return z3.Not(a) if z3.is_bool(a) else ~a
        m = re.fullmatch(r'(.+) as (\S+) \((\w+)(?:\(.*\))?\)', rv)
        if m:
            v = self.operand(fr, m.group(1)); kind = m.group(3); ty = m.group(2)
            if kind == 'IntToInt':
                b = INT_BITS[ty]
                if v.size() > b: return z3.Extract(b - 1, 0, v)
                if v.size() < b: return z3.SignExt(b - v.size(), v) if self.is_signed(fn, None, m.group(1)) else z3.ZeroExt(b - v.size(), v)
                return v
            if kind == 'PointerCoercion':          # &[T;N] -> &[T]
                vec = v.box.v; return Slice(vec, 0, len(vec.elems))
            raise Unmodelled('cast ' + rv)
        # tuple
        if rv.startswith('(') and rv.endswith(')'):
            items = [x for x in split_top(rv[1:-1], ', ') if x.strip()]
            items = [x.rstrip(',') for x in items]
            return [Box(self.operand(fr, x)) for x in items if x.strip()]
        # struct / closure aggregate
        m = re.fullmatch(r'(.+?) \{ (.*) \}', rv)
        if m:
            fields = [Box(self.operand(fr, f.split(': ', 1)[1])) for f in split_top(m.group(2), ', ') if f.strip()]
            if m.group(1).startswith('{closure@'): return Closure(closure_fn(m.group(1)), fields)
            return Struct(fields, m.group(1))
        # enum variant ctor
        m = re.fullmatch(r'([\w:<>, &\[\]\'()]+)::(\w+)(?:\((.*)\))?', rv)
        if m and not rv.startswith(('copy ', 'move ', 'const ')):
            name = m.group(2); args = [Box(self.operand(fr, x)) for x in split_top(m.group(3), ', ')] if m.group(3) else []
            return Enum(VAR_IX.get(name, 0), args, name)
        return self.operand(fr, rv)

    def is_signed(self, fn, dest, opnd):
        m = re.search(r'_\d+', opnd)
        t = fn.types.get(m.group(0), '') if m and opnd.startswith(('copy', 'move')) and re.fullmatch(r'(copy|move) _\d+', opnd) else ''
        if not t:
            mm = re.search(r'_(i\d+|isize)$', opnd);
            if mm: return True
            mm = re.search(r': (i\d+|isize)\)$', opnd)
            return bool(mm)
        return t.startswith('i') and t in INT_BITS

    # -- execution of one MIR function
    def call_fn(self, fn, args):
        fr = {}
        for i, a in enumerate(args): fr['_%d' % (i + 1)] = Box(a)
        bb = 'bb0'
        while True:
            lines = fn.blocks[bb]
            for ln in lines[:-1]:
                self.steps += 1
                if self.steps > self.max_steps: raise Unmodelled('step budget')
                if ln.startswith(('StorageLive', 'StorageDead', 'nop', 'FakeRead', 'PlaceMention', 'Retag')): continue
                m = re.fullmatch(r'(.+?) = (.+);', ln)
                if not m: raise Unmodelled('stmt ' + ln)
                self.place(fr, m.group(1)).v = self.rvalue(fr, fn, m.group(1), m.group(2))
            t = lines[-1]
            if t.startswith('goto -> '): bb = t[8:-1]; continue
            if t == 'return;': return fr.get('_0', Box(None)).v
            if t == 'unreachable;': raise Panic('unreachable reached in ' + fn.name)
            m = re.fullmatch(r'drop\(.+\) -> \[return: (bb\d+), .*\];', t)
            if m: bb = m.group(1); continue
            m = re.fullmatch(r'assert\((!?)(?:move |copy )(.+?), "(.*?)".*\) -> \[success: (bb\d+), .*\];', t)
            if m:
                c = self.place(fr, m.group(2)).v
                ok = z3.Not(c) if m.group(1) else c
                if not self.branch(ok): raise Panic('MIR assert: ' + m.group(3) + ' in ' + fn.name)
                bb = m.group(4); continue
            m = re.fullmatch(r'switchInt\((.+)\) -> \[(.*)\];', t)
            if m:
                v = self.operand(fr, m.group(1)); arms = [x.strip().split(': ') for x in m.group(2).split(', ')]
                if z3.is_bool(v): v = z3.If(v, bv(1, 8), bv(0, 8))
                alts, tgts, neg = [], [], []
                for k, tgt in arms:
                    if k == 'otherwise': alts.append(z3.And(*neg) if neg else z3.BoolVal(True))
                    else: kv = bv(int(k), v.size()); alts.append(v == kv); neg.append(v != kv)
                    tgts.append(tgt)
                bb = tgts[self.decide(alts)]; continue
            m = re.fullmatch(r'(.+?) = (.+) -> \[return: (bb\d+)(?:, .*)?\];', t)
            if m:
                lhs, callx, nxt = m.group(1), m.group(2), m.group(3)
                depth = 0; j = None
                for i in range(len(callx) - 1, -1, -1):
                    ch = callx[i]
                    if ch == ')': depth += 1
                    elif ch == '(':
                        depth -= 1
                        if depth == 0: j = i; break
                callee, argtxt = callx[:j], callx[j + 1:-1]
                args2 = [self.operand(fr, x) for x in split_top(argtxt, ', ') if x.strip()]
                r = self.call(callee, args2)
                self.place(fr, lhs).v = r
                bb = nxt; continue
            raise Unmodelled('terminator ' + t)

    def call_closure(self, c, args):
        if isinstance(c, Ref): c = c.box.v
        if isinstance(c, Model): return c.f(self, *args)
        return self.call_fn(c.fn, [c] + list(args))

    # -- calls: repo functions by MIR, std by model
    def call(self, callee, a):
        c = re.sub(r"'_, |'_|<'_>", '', callee)
        f = None if c.startswith('<') else find_fn(c)
        if f is not None and not re.match(r'(Vec|BTreeMap|HashSet|HashMap|Option|Result|core|std|Box|Arc)\b', c):
            return self.call_fn(f, a)
        E = self
        def sl(x):                                    # anything slice-like -> Slice
            if isinstance(x, Ref): x = x.box.v
            if isinstance(x, PVec): return Slice(x, 0, len(x.elems))
            assert isinstance(x, Slice), x; return x
        # ---- Vec / slice
        if re.search(r'as Deref(Mut)?>::deref(_mut)?$', c): return sl(a[0])
        if re.fullmatch(r'Vec::<.*>::len', c) or c.endswith(']>::len'): s = sl(a[0]); return bv(s.hi - s.lo, 64)
        if re.fullmatch(r'Vec::<.*>::is_empty', c) or c.endswith(']>::is_empty'): s = sl(a[0]); return z3.BoolVal(s.hi == s.lo)
        if re.fullmatch(r'Vec::<.*>::new', c): return PVec([])
        if re.fullmatch(r'Vec::<.*>::push', c): a[0].box.v.elems.append(Box(a[1])); return None
        if c.endswith(']>::iter') or re.search(r'<&(Vec<.*>|\[.*\]) as IntoIterator>::into_iter$', c):
            s = sl(a[0]); return It('slice', s=s, i=s.lo)
        if re.search(r'<Vec<.*> as IntoIterator>::into_iter$', c): return It('vec', v=a[0], i=0)
        if re.search(r'\]>::get::<usize>$', c):
            s = sl(a[0]); n = s.hi - s.lo
            if not E.branch(z3.ULT(a[1], bv(n, 64))): return mk_none()
            i = E.concretize(a[1]); return mk_some(Ref(s.vec.elems[s.lo + i]))
        if re.search(r'\]>::get::<std::ops::Range<usize>>$', c):
            s = sl(a[0]); n = s.hi - s.lo; lo, hi = a[1].fields[0].v, a[1].fields[1].v
            if not E.branch(z3.And(z3.ULE(lo, hi), z3.ULE(hi, bv(n, 64)))): return mk_none()
            l = E.concretize(lo); h = E.concretize(hi); return mk_some(Slice(s.vec, s.lo + l, s.lo + h))
        if re.search(r'as Clone>::clone$', c) and isinstance(a[0].box.v, PVec): return PVec([Box(b.v) for b in a[0].box.v.elems])
        # ---- ranges / iterators
        if c.endswith('<std::ops::Range<usize> as IntoIterator>::into_iter'): return a[0]
        if c.endswith('<std::ops::Range<usize> as Iterator>::next'):
            r = a[0].box.v; lo, hi = r.fields[0], r.fields[1]
            if E.branch(z3.ULT(lo.v, hi.v)): v = lo.v; lo.v = z3.simplify(lo.v + 1); return mk_some(v)
            return mk_none()
        if c.endswith('as IntoIterator>::into_iter') and isinstance(a[0], It): return a[0]
        if c.endswith('as Iterator>::enumerate'): return It('enum', inner=a[0], n=0)
        if re.search(r'as Iterator>::(filter_map|map|filter)::', c) or re.search(r'as Iterator>::(filter_map|map|filter)$', c):
            k = re.search(r'as Iterator>::(\w+)', c).group(1); return It(k, inner=a[0], f=a[1])
        if c.endswith('as Iterator>::next'): return E.it_next(a[0].box.v)
        if re.search(r'as Iterator>::collect::<Vec<', c):
            out = []
            while True:
                x = E.it_next(a[0])
                if x.variant == 0: break
                out.append(Box(x.fields[0].v))
            return PVec(out)
        if re.search(r'as Iterator>::any::', c):
            it = a[0].box.v if isinstance(a[0], Ref) else a[0]
            while True:
                x = E.it_next(it)
                if x.variant == 0: return z3.BoolVal(False)
                if E.branch(E.call_closure(a[1], [[Box(x.fields[0].v)]] if False else [x.fields[0].v])): return z3.BoolVal(True)
        # ---- BTreeMap / HashSet / HashMap (assoc lists, equality-forked)
        if re.fullmatch(r'(BTreeMap|HashMap)::<.*>::new', c): return PMap()
        if re.fullmatch(r'HashSet::<.*>::new', c): return PSet()
        def lookup(items, k):
            for idx, (kk, _) in enumerate(items):
                if E.branch(kk == k): return idx
            return None
        if re.fullmatch(r'BTreeMap::<.*>::entry', c): return ('entry', a[0].box.v, a[1])
        if c.endswith('Entry::<u16, Vec<u16>>::or_default') or '::or_default' in c:
            _, mp, k = a[0]; i = lookup(mp.items, k)
            if i is None: mp.items.append((k, Box(PVec([])))); i = len(mp.items) - 1
            return Ref(mp.items[i][1])
        if re.fullmatch(r'BTreeMap::<.*>::(get|get_mut)::<.*>', c):
            mp = a[0].box.v if isinstance(a[0], Ref) else a[0]; k = a[1].box.v; i = lookup(mp.items, k)
            return mk_none() if i is None else mk_some(Ref(mp.items[i][1]))
        if c.endswith('as Index<&u16>>::index'):
            mp = a[0].box.v; k = a[1].box.v; i = lookup(mp.items, k)
            if i is None: raise Panic('BTreeMap index: key not found')
            return Ref(mp.items[i][1])
        if re.fullmatch(r'BTreeMap::<.*>::insert', c):
            mp = a[0].box.v; i = lookup(mp.items, a[1])
            if i is None: mp.items.append((a[1], Box(a[2]))); return mk_none()
            old = mp.items[i][1].v; mp.items[i][1].v = a[2]; return mk_some(old)
        if re.fullmatch(r'BTreeMap::<.*>::remove::<.*>', c):
            mp = a[0].box.v; i = lookup(mp.items, a[1].box.v)
            if i is None: return mk_none()
            return mk_some(mp.items.pop(i)[1].v)
        if re.fullmatch(r'BTreeMap::<.*>::is_empty', c): return z3.BoolVal(len(a[0].box.v.items) == 0)
        if re.fullmatch(r'BTreeMap::<.*>::iter', c):
            mp = a[0].box.v if isinstance(a[0], Ref) else a[0]
            keys = [(E.concretize(k), b) for k, b in mp.items]      # ordered iteration needs concrete keys
            keys.sort(key=lambda kb: kb[0])
            return It('list', xs=[[Box(Ref(Box(bv(k, 16)))), Box(Ref(b))] for k, b in keys], i=0)
        if re.fullmatch(r'HashSet::<.*>::insert', c):
            st = a[0].box.v
            for kk in st.items:
                if E.branch(kk == a[1]): return z3.BoolVal(False)
            st.items.append(a[1]); return z3.BoolVal(True)
        if re.fullmatch(r'HashSet::<.*>::contains::<.*>', c):
            st = a[0].box.v if isinstance(a[0], Ref) else a[0]; k = a[1].box.v
            for kk in st.items:
                if E.branch(kk == k): return z3.BoolVal(True)
            return z3.BoolVal(False)
        # ---- Option / Result / Try
        if re.fullmatch(r'Option::<.*>::ok_or_else::<.*>', c):
            return Enum(0, [Box(a[0].fields[0].v)], 'Ok') if a[0].variant == 1 else Enum(1, [Box(E.call_closure(a[1], []))], 'Err')
        if re.fullmatch(r'Option::<.*>::map_or::<.*>', c):
            return a[1] if a[0].variant == 0 else E.call_closure(a[2], [a[0].fields[0].v])
        if re.fullmatch(r'Option::<.*>::expect', c):
            if a[0].variant == 0: raise Panic('expect on None: ' + str(a[1]))
            return a[0].fields[0].v
        if c.endswith('as Try>::branch'):
            x = a[0]
            if x.name in ('Some', 'Ok'): return Enum(0, [Box(x.fields[0].v)], 'Continue')
            return Enum(1, [Box(Enum(x.variant, list(x.fields), x.name))], 'Break')
        if 'as FromResidual<' in c and c.endswith('::from_residual'):
            x = a[0]; return Enum(x.variant, list(x.fields), x.name)
        if re.fullmatch(r'<usize as From<u16>>::from', c): return z3.ZeroExt(48, a[0])
        if c.endswith('::saturating_add'):
            s = a[0] + a[1]; return z3.If(z3.ULT(s, a[0]), bv(2**a[0].size() - 1, a[0].size()), s)
        if c.endswith('::saturating_sub'): return z3.If(z3.ULT(a[0], a[1]), bv(0, a[0].size()), a[0] - a[1])
        if re.search(r'<F as Fn<.*>>::call$', c): return E.call_closure(a[0], [x.v for x in a[1]])
        raise Unmodelled('callee ' + callee)

    def it_next(self, it):
        E = self
        if it.kind == 'slice':
            if it.i >= it.s.hi: return mk_none()
            b = it.s.vec.elems[it.i]; it.i += 1; return mk_some(Ref(b))
        if it.kind == 'vec':
            v = it.v
            if it.i >= len(v.elems): return mk_none()
            b = v.elems[it.i]; it.i += 1; return mk_some(b.v)
        if it.kind == 'list':
            if it.i >= len(it.xs): return mk_none()
            x = it.xs[it.i]; it.i += 1; return mk_some(x)
        if it.kind == 'enum':
            x = E.it_next(it.inner)
            if x.variant == 0: return x
            n = it.n; it.n += 1; return mk_some([Box(bv(n, 64)), Box(x.fields[0].v)])
        if it.kind == 'map':
            x = E.it_next(it.inner)
            return x if x.variant == 0 else mk_some(E.call_closure(it.f, [x.fields[0].v]))
        if it.kind == 'filter_map':
            while True:
                x = E.it_next(it.inner)
                if x.variant == 0: return x
                r = E.call_closure(it.f, [x.fields[0].v])
                if r.variant == 1: return r
        if it.kind == 'filter':
            while True:
                x = E.it_next(it.inner)
                if x.variant == 0: return x
                if E.branch(E.call_closure(it.f, [Ref(Box(x.fields[0].v))])): return x
        raise Unmodelled('iterator ' + it.kind)

def closure_fn(tag):
    # tag like {closure@crates/check/src/solution.rs:868:13: 868:32}
    for n, f in FUNCS.items():
        if '{closure#' in n and tag in f.text.split('\n', 1)[0]: return f
    raise Unmodelled('closure ' + tag)

# ------------------------------------------------------------------ harness: graph helpers
def main():
    load(sys.argv[1]); load(sys.argv[2])
    N = int(sys.argv[3]); EMAX = int(sys.argv[4])
    t0 = time.time(); stats = {'ok': 0, 'err': 0, 'panic': 0, 'viol': []}
    tot_paths = tot_q = 0; tsolver = 0.0
    for ne in range(0, EMAX + 1):
        eng = Engine()
        es = [z3.BitVec(f'es{i}', 16) for i in range(N)]
        ed = [z3.BitVec(f'e{j}', 16) for j in range(ne)]
        dfl = [z3.Bool(f'd{i}') for i in range(N)]
        def harness(E):
            nodes = PVec([Box(Struct([Box(es[i]), Box(bv(i, 8))], 'Node')) for i in range(N)])
            pred = Struct([Box(nodes), Box(PVec([Box(e) for e in ed]))], 'Predicate')
            pm = E.call('create_parent_map::<E>', [Ref(Box(pred))])
            if pm.variant == 1: return ('err', 'parent_map')
            pmap = pm.fields[0].v
            ts = E.call('parallel_topo_sort::<E>', [Ref(Box(pred)), Ref(Box(pmap))])
            if ts.variant == 1: return ('err', 'topo')
            levels = [[conc(b.v) for b in lv.v.elems] for lv in ts.fields[0].v.elems]
            isdef = Model(lambda E, node: dfl[conc(node.box.v.fields[1].v)])
            dset = E.call('find_deferred::<X>', [Ref(Box(pred)), isdef])
            # classify every edge target against node ids (forks only where still undecided)
            tgt = []
            for e in ed:
                k = None
                for i in range(N):
                    if E.branch(e == bv(i, 16)): k = i; break
                tgt.append(k)
            # children per node through the real node_edges
            kids = {}
            for i in range(N):
                r = E.call('Predicate::node_edges', [Ref(Box(pred)), bv(i, 64)])
                s_ = r.fields[0].v
                kids[i] = [tgt[j] for j in range(s_.lo, s_.hi) if tgt[j] is not None]
            flat = [x for lv in levels for x in lv]
            if sorted(flat) != list(range(N)): return ('viol', 'levels do not partition the nodes', E.model())
            lvl = {x: li for li, lv in enumerate(levels) for x in lv}
            for p in range(N):
                for c_ in kids[p]:
                    if not lvl[p] < lvl[c_]: return ('viol', 'child not after parent', E.model())
            # ancestors-or-self
            anc = {i: {i} for i in range(N)}
            for _ in range(N):
                for p in range(N):
                    for c_ in kids[p]: anc[c_] |= anc[p]
            for i in range(N):
                actual = z3.Or(*[kk == bv(i, 16) for kk in dset.items]) if dset.items else z3.BoolVal(False)
                expected = z3.Or(*[dfl[a_] for a_ in sorted(anc[i])])
                m = E.check_prop(actual != expected)
                if m is not None: return ('viol', f'deferred set wrong for node {i}', m)
            return ('ok', levels, dset)
        res = eng.explore(harness)
        for kind, out in res:
            if kind == 'panic': stats['panic'] += 1; stats['viol'].append(out[0])
            elif out[0] == 'err': stats['err'] += 1
            elif out[0] == 'viol': stats['viol'].append(out[1]); stats.setdefault('ex', []).append(out[2])
            else: stats['ok'] += 1
        tot_paths += eng.paths; tot_q += eng.queries; tsolver += eng.solver_time
    if stats.get('ex'): print('example counterexample:', stats['ex'][0], 'of', len(stats['ex']))
    print(f'N={N} E<={EMAX}: paths={tot_paths} queries={tot_q} solver_s={tsolver:.1f} wall_s={time.time()-t0:.1f} ok={stats["ok"]} err={stats["err"]} panic={stats["panic"]}', set(stats['viol']))

if __name__ == '__main__':
    main()
