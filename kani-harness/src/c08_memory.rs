//! C08 (and C05 totality): Memory / ParentMemory ops against reference models.
use crate::util::*;
use essential_asm as asm;
use essential_types::Word;
use essential_vm::{sync::{step_op_memory, step_op_parent_memory}, Memory};
use std::sync::Arc;

const NS: usize = 5;
const NM: usize = 4;

/// Range operands of the allocating ops are restricted to a small window around the valid
/// region (an unbounded symbolic allocation size exhausts CBMC); values far outside are
/// decided by the `*_far` harnesses, which assert the error.
fn small(x: Word) -> bool { x >= -2 && x <= NM as Word + 2 }

/// `mem[k] == marr[k]` for every k < n except those in [lo, hi).
fn mem_frame(mem: &[Word], marr: &[Word; NM], n: usize, lo: usize, hi: usize) -> bool {
    let mut ok = mem.len() >= n;
    let mut k = 0;
    while k < NM {
        if ok && k < n && !(k >= lo && k < hi) { ok = mem[k] == marr[k]; }
        k += 1;
    }
    ok
}


/// Free: [new_len] -> memory truncated to new_len.
#[kani::proof]
#[kani::unwind(8)]
fn c08_mem_free() {
    let (mut st, arr, len) = any_stack::<3>();
    let (mut mem, marr, mlen) = any_memory::<NM>();
    let r = step_op_memory(asm::Memory::Free, &mut st, &mut mem);
    let ok = r.is_ok();
    core::mem::forget(r);
    if len == 0 { assert!(!ok); } else {
        let n = arr[len - 1];
        assert!(ok == (n >= 0 && n as u64 <= mlen as u64));
        if ok {
            assert!(st.len() == len - 1 && prefix_eq(&st, &arr, len - 1));
            assert!((&mem[..]).len() as Word == (n) && mem_frame(&mem, &marr, n as usize, 0, 0));
            kani::cover!(n == 0 && mlen == NM); kani::cover!(n as usize == mlen && mlen > 0);
        }
        kani::cover!(!ok && n == mlen as Word + 1);
    }
    core::mem::forget(st); core::mem::forget(mem);
}

/// Load: [index] -> [memory[index]]
#[kani::proof]
#[kani::unwind(8)]
fn c08_mem_load() {
    let (mut st, arr, len) = any_stack::<3>();
    let (mut mem, marr, mlen) = any_memory::<NM>();
    let r = step_op_memory(asm::Memory::Load, &mut st, &mut mem);
    let ok = r.is_ok();
    core::mem::forget(r);
    if len == 0 { assert!(!ok); } else {
        let i = arr[len - 1];
        assert!(ok == (i >= 0 && (i as u64) < mlen as u64));
        if ok {
            assert!(st.len() == len && st[len - 1] == marr[i as usize] && prefix_eq(&st, &arr, len - 1));
            assert!((&mem[..]).len() as Word == (mlen as Word) && mem_frame(&mem, &marr, mlen, 0, 0));
            kani::cover!(i as usize == NM - 1);
        }
        kani::cover!(!ok && i == mlen as Word);
    }
    core::mem::forget(st); core::mem::forget(mem);
}

/// Store: [value, index] -> memory[index] = value
#[kani::proof]
#[kani::unwind(8)]
fn c08_mem_store() {
    let (mut st, arr, len) = any_stack::<4>();
    let (mut mem, marr, mlen) = any_memory::<NM>();
    let r = step_op_memory(asm::Memory::Store, &mut st, &mut mem);
    let ok = r.is_ok();
    core::mem::forget(r);
    if len < 2 { assert!(!ok); } else {
        let i = arr[len - 1];
        let v = arr[len - 2];
        assert!(ok == (i >= 0 && (i as u64) < mlen as u64));
        if ok {
            let i = i as usize;
            assert!(st.len() == len - 2 && prefix_eq(&st, &arr, len - 2));
            assert!((&mem[..]).len() as Word == (mlen as Word) && mem[i] == v && mem_frame(&mem, &marr, mlen, i, i + 1));
            kani::cover!(i == NM - 1); kani::cover!(i == 0 && mlen == NM);
        }
        kani::cover!(!ok && i == mlen as Word);
    }
    core::mem::forget(st); core::mem::forget(mem);
}


/// StoreRange: [values.., len, index] -> memory[index..index+len] = values
#[kani::proof]
#[kani::unwind(9)]
fn c08_mem_store_range() {
    const M: usize = 6;
    let (mut st, arr, len) = any_stack::<M>();
    let (mut mem, marr, mlen) = any_memory::<NM>();
    let r = step_op_memory(asm::Memory::StoreRange, &mut st, &mut mem);
    let ok = r.is_ok();
    core::mem::forget(r);
    if len < 2 { assert!(!ok); } else {
        let a = arr[len - 1];
        let n = arr[len - 2];
        let rest = len - 2;
        let valid = n >= 0 && n as u64 <= rest as u64 && a >= 0 && a as u128 + n as u128 <= mlen as u128;
        assert!(ok == valid);
        if ok {
            let (a, n) = (a as usize, n as usize);
            let base = rest - n;
            assert!(st.len() == base && prefix_eq(&st, &arr, base));
            assert!((&mem[..]).len() as Word == (mlen as Word) && mem_frame(&mem, &marr, mlen, a, a + n));
            let mut k = 0;
            while k < NM { if k < n { assert!(mem[a + k] == arr[base + k], "stored words"); } k += 1; }
            kani::cover!(n == NM); kani::cover!(n == 2 && a == 1); kani::cover!(n == 0);
        }
        kani::cover!(!ok && n >= 0 && a >= 0 && n as usize <= rest && a as usize + n as usize == mlen + 1);
    }
    core::mem::forget(st); core::mem::forget(mem);
}

fn parent(depth_some: bool) -> (Vec<Arc<Memory>>, [Word; NM], usize) {
    let (pm, parr, plen) = any_memory::<NM>();
    let v = if depth_some { vec![Arc::new(pm)] } else { core::mem::forget(pm); vec![] };
    (v, parr, plen)
}

/// ParentMemory::Load
#[kani::proof]
#[kani::unwind(8)]
fn c08_pmem_load() {
    let (mut st, arr, len) = any_stack::<3>();
    let has: bool = kani::any();
    let (pv, parr, plen) = parent(has);
    let r = step_op_parent_memory(asm::ParentMemory::Load, &mut st, &pv);
    let ok = r.is_ok();
    core::mem::forget(r);
    if !has || len == 0 { assert!(!ok); } else {
        let i = arr[len - 1];
        assert!(ok == (i >= 0 && (i as u64) < plen as u64));
        if ok {
            assert!(st.len() == len && st[len - 1] == parr[i as usize] && prefix_eq(&st, &arr, len - 1));
            kani::cover!(i as usize == NM - 1);
        }
    }
    kani::cover!(!has);
    core::mem::forget(st); core::mem::forget(pv);
}


/// LoadRange / ParentMemory::LoadRange with operands far outside the memory: always an error.
#[kani::proof]
#[kani::unwind(8)]
fn c08_mem_load_range_far() {
    let (mut mem, marr, mlen) = any_memory::<NM>();
    let a: Word = kani::any();
    let n: Word = kani::any();
    kani::assume(!(small(a) && small(n)));
    kani::assume(a < 0 || n < 0 || a as u128 + n as u128 > NM as u128);
    let parent: bool = kani::any();
    let mut st = essential_vm::Stack::try_from({ let mut v = Vec::with_capacity(8); v.push(a); v.push(n); v }).unwrap();
    let ok = if parent {
        let pv = vec![Arc::new(mem)];
        let r = step_op_parent_memory(asm::ParentMemory::LoadRange, &mut st, &pv);
        let ok = r.is_ok(); core::mem::forget(r); core::mem::forget(pv); ok
    } else {
        let r = step_op_memory(asm::Memory::LoadRange, &mut st, &mut mem);
        let ok = r.is_ok(); core::mem::forget(r); core::mem::forget(mem); ok
    };
    assert!(!ok, "out-of-range load must fail");
    kani::cover!(a == i64::MAX && n == i64::MAX);
    kani::cover!(a == 1 && n == i64::MAX);
    core::mem::forget(st);
}
