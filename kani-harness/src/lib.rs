//! Kani proof harnesses over the real essential-base crates (engine K, DESIGN.md 2.2).
//! This crate is copied next to a scratch copy of /repo (`../repo`) on every run.
#![allow(dead_code, unused_imports, unused_variables, unused_mut, clippy::all)]

#[cfg(kani)]
pub mod util;
#[cfg(kani)]
pub mod c08_alu;
#[cfg(kani)]
pub mod c08_pred;
#[cfg(kani)]
pub mod c08_stack;
#[cfg(kani)]
pub mod c08_memory;
