//! C08 (and C05 totality): Pred ops against reference models.
use crate::util::*;
use essential_asm as asm;
use essential_types::Word;
use essential_vm::sync::step_op_pred;

const N: usize = 4;

fn bin(op: asm::Pred, oracle: impl FnOnce(Word, Word) -> Word) {
    let (mut st, arr, len) = any_stack::<N>();
    let r = step_op_pred(op, &mut st);
    let ok = r.is_ok();
    core::mem::forget(r);
    if len < 2 {
        assert!(!ok, "too few operands must fail");
    } else {
        let w = oracle(arr[len - 2], arr[len - 1]);
        assert!(ok, "must succeed");
        assert!(st.len() == len - 1, "pops two, pushes one");
        assert!(st[len - 2] == w, "result word");
        assert!(prefix_eq(&st, &arr, len - 2), "frame: words below unchanged");
        kani::cover!(len == N && w == 1, "full stack, result 1");
        kani::cover!(w == 0, "result 0");
    }
    core::mem::forget(st);
}

#[kani::proof]
#[kani::unwind(6)]
fn c08_pred_eq() { bin(asm::Pred::Eq, |a, b| (a == b) as Word); }
#[kani::proof]
#[kani::unwind(6)]
fn c08_pred_gt() { bin(asm::Pred::Gt, |a, b| (a as i128 > b as i128) as Word); }
#[kani::proof]
#[kani::unwind(6)]
fn c08_pred_lt() { bin(asm::Pred::Lt, |a, b| ((a as i128) < b as i128) as Word); }
#[kani::proof]
#[kani::unwind(6)]
fn c08_pred_gte() { bin(asm::Pred::Gte, |a, b| (a as i128 >= b as i128) as Word); }
#[kani::proof]
#[kani::unwind(6)]
fn c08_pred_lte() { bin(asm::Pred::Lte, |a, b| (a as i128 <= b as i128) as Word); }
#[kani::proof]
#[kani::unwind(6)]
fn c08_pred_and() { bin(asm::Pred::And, |a, b| (a != 0 && b != 0) as Word); }
#[kani::proof]
#[kani::unwind(6)]
fn c08_pred_or() { bin(asm::Pred::Or, |a, b| (a != 0 || b != 0) as Word); }
#[kani::proof]
#[kani::unwind(6)]
fn c08_pred_bitand() {
    // bitwise: every bit of the result is the AND of the operand bits
    let (mut st, arr, len) = any_stack::<N>();
    let r = step_op_pred(asm::Pred::BitAnd, &mut st);
    let ok = r.is_ok();
    core::mem::forget(r);
    assert!(ok == (len >= 2));
    if ok {
        let k: u32 = kani::any();
        kani::assume(k < 64);
        let (a, b, c) = (arr[len - 2] as u64, arr[len - 1] as u64, st[len - 2] as u64);
        assert!(((c >> k) & 1) == (((a >> k) & 1) & ((b >> k) & 1)));
        assert!(st.len() == len - 1 && prefix_eq(&st, &arr, len - 2));
        kani::cover!(c != 0);
    }
    core::mem::forget(st);
}
#[kani::proof]
#[kani::unwind(6)]
fn c08_pred_bitor() {
    let (mut st, arr, len) = any_stack::<N>();
    let r = step_op_pred(asm::Pred::BitOr, &mut st);
    let ok = r.is_ok();
    core::mem::forget(r);
    assert!(ok == (len >= 2));
    if ok {
        let k: u32 = kani::any();
        kani::assume(k < 64);
        let (a, b, c) = (arr[len - 2] as u64, arr[len - 1] as u64, st[len - 2] as u64);
        assert!(((c >> k) & 1) == (((a >> k) & 1) | ((b >> k) & 1)));
        assert!(st.len() == len - 1 && prefix_eq(&st, &arr, len - 2));
        kani::cover!(c != 0);
    }
    core::mem::forget(st);
}

#[kani::proof]
#[kani::unwind(6)]
fn c08_pred_not() {
    let (mut st, arr, len) = any_stack::<N>();
    let r = step_op_pred(asm::Pred::Not, &mut st);
    let ok = r.is_ok();
    core::mem::forget(r);
    assert!(ok == (len >= 1));
    if ok {
        assert!(st.len() == len);
        assert!(st[len - 1] == (arr[len - 1] == 0) as Word);
        assert!(prefix_eq(&st, &arr, len - 1));
        kani::cover!(st[len - 1] == 1);
        kani::cover!(st[len - 1] == 0);
    }
    core::mem::forget(st);
}

