//! Shared helpers: symbolic stacks/memories with explicit symbolic lengths (DESIGN 2.2).
//! Lengths are made symbolic by `truncate` on a concrete-capacity vector (cheap for CBMC:
//! no symbolic-size allocation).
use essential_types::Word;
use essential_vm::{Memory, Stack};

/// Vector of symbolic length `0..=N` with symbolic content; returns the model array too.
pub fn sym_vec<const N: usize>() -> (Vec<Word>, [Word; N], usize) {
    let arr: [Word; N] = kani::any();
    let len: usize = kani::any();
    kani::assume(len <= N);
    // spare capacity: pushes by the op under test never reallocate
    let mut v = Vec::with_capacity(N + 8);
    v.extend_from_slice(&arr);
    v.truncate(len);
    (v, arr, len)
}

/// Stack of symbolic length `0..=N`.
pub fn any_stack<const N: usize>() -> (Stack, [Word; N], usize) {
    let (v, arr, len) = sym_vec::<N>();
    (Stack::try_from(v).unwrap(), arr, len)
}

/// Memory of symbolic length `0..=N`.
pub fn any_memory<const N: usize>() -> (Memory, [Word; N], usize) {
    let (v, arr, len) = sym_vec::<N>();
    (Memory::try_from(v).unwrap(), arr, len)
}

/// `st[..n] == arr[..n]` with a constant loop bound.
pub fn prefix_eq<const N: usize>(st: &[Word], arr: &[Word; N], n: usize) -> bool {
    let mut ok = st.len() >= n;
    let mut i = 0;
    while i < N {
        if i < n && ok {
            ok = st[i] == arr[i];
        }
        i += 1;
    }
    ok
}

/// Whether `w` is representable as a usize index (non-negative).
pub fn ix(w: Word) -> Option<usize> {
    if w < 0 { None } else { Some(w as usize) }
}
