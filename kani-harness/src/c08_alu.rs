//! C08 (and C05 totality): ALU ops against mathematical-integer reference models.
use crate::util::*;
use essential_asm as asm;
use essential_types::Word;
use essential_vm::sync::step_op_alu;

const N: usize = 4;

/// Common driver: run `op` on an arbitrary stack, compare with `oracle(lhs, rhs)`
/// (`None` = the op must fail), check the frame (all words below unchanged).
fn bin(op: asm::Alu, oracle: impl FnOnce(Word, Word) -> Option<Word>) {
    let (mut st, arr, len) = any_stack::<N>();
    let r = step_op_alu(op, &mut st);
    let ok = r.is_ok();
    core::mem::forget(r);
    if len < 2 {
        assert!(!ok, "too few operands must fail");
    } else {
        let want = oracle(arr[len - 2], arr[len - 1]);
        match want {
            None => assert!(!ok, "documented failure condition must fail"),
            Some(w) => {
                assert!(ok, "must succeed");
                assert!(st.len() == len - 1, "pops two, pushes one");
                assert!(st[len - 2] == w, "result word");
                assert!(prefix_eq(&st, &arr, len - 2), "frame: words below unchanged");
                kani::cover!(len == N, "full stack, success");
            }
        }
        kani::cover!(want.is_none(), "failure branch reachable");
    }
    core::mem::forget(st);
}

fn in_i64(x: i128) -> Option<Word> {
    if x > i64::MAX as i128 || x < i64::MIN as i128 { None } else { Some(x as i64) }
}

#[kani::proof]
#[kani::unwind(6)]
fn c08_alu_add() {
    bin(asm::Alu::Add, |a, b| in_i64(a as i128 + b as i128));
}

#[kani::proof]
#[kani::unwind(6)]
fn c08_alu_sub() {
    bin(asm::Alu::Sub, |a, b| in_i64(a as i128 - b as i128));
}

/// Mul, operands restricted to |x| < 2^16 or a boundary constant (64x64 multiplier
/// equivalence is a SAT stall; DESIGN C08).
fn small_or_special(x: Word) -> bool {
    (x > -(1 << 16) && x < (1 << 16))
        || x == i64::MIN || x == i64::MIN + 1 || x == i64::MAX || x == i64::MAX - 1
        || x == (1 << 31) || x == (1 << 32) || x == -(1 << 31) || x == -(1 << 32)
        || x == 3037000499 || x == 3037000500 || x == -3037000500
}

#[kani::proof]
#[kani::unwind(6)]
fn c08_alu_mul_bounded() {
    bin(asm::Alu::Mul, |a, b| {
        kani::assume(small_or_special(a) && small_or_special(b));
        in_i64(a as i128 * b as i128)
    });
}

/// Mul full width: success iff the i128 product fits; result's low bits equal wrapping product.
#[kani::proof]
#[kani::unwind(6)]
fn c08_alu_mul_full_lowbits() {
    let (mut st, arr, len) = any_stack::<2>();
    kani::assume(len == 2);
    let (a, b) = (arr[0], arr[1]);
    let r = step_op_alu(asm::Alu::Mul, &mut st);
    let ok = r.is_ok();
    core::mem::forget(r);
    if ok {
        let p = st[0];
        // sign rule and zero rule of an exact product
        if a == 0 || b == 0 { assert!(p == 0); }
        if a == 1 { assert!(p == b); }
        if b == 1 { assert!(p == a); }
        assert!(p == a.wrapping_mul(b), "low 64 bits are those of the product");
    } else {
        assert!(a != 0 && b != 0 && a != 1 && b != 1);
    }
    core::mem::forget(st);
}

/// Div and Mod together on the same operands, validated by the division lemma
/// a = q*d + r, |r| < |d|, r = 0 or sign(r) = sign(a)  (no division in the oracle).
/// Operands: |a| < 2^16 or boundary constant, |d| < 2^8 or boundary constant.
#[kani::proof]
#[kani::unwind(6)]
fn c08_alu_divmod_lemma_bounded() {
    let a: Word = kani::any();
    let d: Word = kani::any();
    kani::assume(small_or_special(a));
    kani::assume((d > -256 && d < 256) || d == i64::MIN || d == i64::MAX || d == (1 << 32) || d == -(1 << 31));
    let below: Word = kani::any();
    let mk = || { let mut v = Vec::with_capacity(8); v.push(below); v.push(a); v.push(d); essential_vm::Stack::try_from(v).unwrap() };
    let mut s1 = mk();
    let mut s2 = mk();
    let r1 = step_op_alu(asm::Alu::Div, &mut s1);
    let r2 = step_op_alu(asm::Alu::Mod, &mut s2);
    let (ok1, ok2) = (r1.is_ok(), r2.is_ok());
    core::mem::forget(r1); core::mem::forget(r2);
    let must_fail = d == 0 || (a == i64::MIN && d == -1);
    assert!(ok1 == !must_fail && ok2 == !must_fail);
    if ok1 {
        let (q, r) = (s1[1] as i128, s2[1] as i128);
        assert!(s1.len() == 2 && s2.len() == 2 && s1[0] == below && s2[0] == below);
        assert!(q * (d as i128) + r == a as i128, "a = q*d + r");
        assert!(r.abs() < (d as i128).abs(), "|r| < |d|");
        assert!(r == 0 || (r < 0) == (a < 0), "remainder has the sign of the dividend");
        kani::cover!(r != 0 && a < 0 && d < 0);
        kani::cover!(a == i64::MIN);
    }
    kani::cover!(must_fail && d != 0);
    core::mem::forget(s1); core::mem::forget(s2);
}

/// Div/Mod full width: error condition exact; result obeys the division lemma's side conditions
/// (|r| < |d|, sign(r) in {0, sign(a)}) — the 64-bit q*d+r=a identity is left to the bounded harness.
#[kani::proof]
#[kani::unwind(6)]
fn c08_alu_divmod_full_errcond() {
    let (mut st, arr, len) = any_stack::<2>();
    kani::assume(len == 2);
    let (a, d) = (arr[0], arr[1]);
    let is_mod: bool = kani::any();
    let r = step_op_alu(if is_mod { asm::Alu::Mod } else { asm::Alu::Div }, &mut st);
    let ok = r.is_ok();
    core::mem::forget(r);
    let must_fail = d == 0 || (a == i64::MIN && d == -1);
    assert!(ok == !must_fail);
    if ok && is_mod {
        let m = st[0];
        assert!(m == 0 || (m < 0) == (a < 0));
        assert!((m as i128).abs() < (d as i128).abs());
    }
    if ok && !is_mod {
        let q = st[0];
        assert!(q == 0 || (q < 0) == ((a < 0) != (d < 0)));
        if d == 1 { assert!(q == a); }
        if d == -1 { assert!(q as i128 == -(a as i128)); }
        assert!((q as i128).abs() <= (a as i128).abs());
    }
    kani::cover!(!ok);
    core::mem::forget(st);
}

fn shift_ok(b: Word) -> bool { b >= 0 && b < 64 }

#[kani::proof]
#[kani::unwind(6)]
fn c08_alu_shl() {
    bin(asm::Alu::Shl, |a, b| if shift_ok(b) { Some(((a as u64) << (b as u32)) as i64) } else { None });
}

#[kani::proof]
#[kani::unwind(6)]
fn c08_alu_shr() {
    bin(asm::Alu::Shr, |a, b| if shift_ok(b) { Some(((a as u64) >> (b as u32)) as i64) } else { None });
}

#[kani::proof]
#[kani::unwind(6)]
fn c08_alu_shri() {
    bin(asm::Alu::ShrI, |a, b| {
        if shift_ok(b) {
            // floor(a / 2^b) over the integers
            let p = 1i128 << (b as u32);
            Some((a as i128).div_euclid(p) as i64)
        } else {
            None
        }
    });
}
