//! C08 (and C05 totality): Stack ops against reference models written from asm.yml.
use crate::util::*;
use essential_asm as asm;
use essential_types::Word;
use essential_vm::{sync::step_op_stack, Repeat, Stack};

const N: usize = 6;

/// Runs a stack op that must not touch pc / the repeat stack; returns Ok?.
fn run(op: asm::Stack, st: &mut Stack) -> bool {
    let mut rep = Repeat::new();
    let pc: usize = kani::any();
    let r = step_op_stack(op, pc, st, &mut rep);
    let ok = match &r { Ok(None) => true, Ok(Some(_)) => { assert!(false, "data op must not change control flow"); false } Err(_) => false };
    core::mem::forget(r);
    assert!(rep == Repeat::new(), "repeat stack untouched");
    core::mem::forget(rep);
    ok
}

#[kani::proof]
#[kani::unwind(8)]
fn c08_stack_push() {
    let (mut st, arr, len) = any_stack::<N>();
    let w: Word = kani::any();
    let ok = run(asm::Stack::Push(w), &mut st);
    assert!(ok);
    assert!(st.len() == len + 1 && st[len] == w && prefix_eq(&st, &arr, len));
    kani::cover!(len == N);
    core::mem::forget(st);
}

#[kani::proof]
#[kani::unwind(8)]
fn c08_stack_pop() {
    let (mut st, arr, len) = any_stack::<N>();
    let ok = run(asm::Stack::Pop, &mut st);
    assert!(ok == (len >= 1));
    if ok { assert!(st.len() == len - 1 && prefix_eq(&st, &arr, len - 1)); }
    kani::cover!(ok && len == N);
    core::mem::forget(st);
}

#[kani::proof]
#[kani::unwind(8)]
fn c08_stack_dup() {
    let (mut st, arr, len) = any_stack::<N>();
    let ok = run(asm::Stack::Dup, &mut st);
    assert!(ok == (len >= 1));
    if ok { assert!(st.len() == len + 1 && st[len] == arr[len - 1] && prefix_eq(&st, &arr, len)); }
    kani::cover!(ok && len == N);
    core::mem::forget(st);
}

#[kani::proof]
#[kani::unwind(8)]
fn c08_stack_swap() {
    let (mut st, arr, len) = any_stack::<N>();
    let ok = run(asm::Stack::Swap, &mut st);
    assert!(ok == (len >= 2));
    if ok {
        assert!(st.len() == len && st[len - 1] == arr[len - 2] && st[len - 2] == arr[len - 1]);
        assert!(prefix_eq(&st, &arr, len - 2));
    }
    kani::cover!(ok && len == N);
    core::mem::forget(st);
}

/// DupFrom: [.., index] -> [.., value_i], 0 = top (after popping the index).
#[kani::proof]
#[kani::unwind(8)]
fn c08_stack_dup_from() {
    let (mut st, arr, len) = any_stack::<N>();
    let ok = run(asm::Stack::DupFrom, &mut st);
    if len == 0 { assert!(!ok); } else {
        let i = arr[len - 1];
        let rest = len - 1;
        let valid = i >= 0 && (i as u64) < rest as u64;
        assert!(ok == valid, "Ok iff index addresses an existing word");
        if ok {
            let src = rest - 1 - i as usize;
            assert!(st.len() == rest + 1 && st[rest] == arr[src] && prefix_eq(&st, &arr, rest));
            kani::cover!(i == 0);
            kani::cover!(src == 0 && rest == N - 1, "deepest word");
        }
        kani::cover!(!ok && i == rest as Word, "index one past the bottom");
    }
    core::mem::forget(st);
}

/// SwapIndex: [a, b, c, d, index] -> swap top with the word `index` below the top.
#[kani::proof]
#[kani::unwind(8)]
fn c08_stack_swap_index() {
    let (mut st, arr, len) = any_stack::<N>();
    let ok = run(asm::Stack::SwapIndex, &mut st);
    if len == 0 { assert!(!ok); } else {
        let i = arr[len - 1];
        let rest = len - 1;
        let valid = rest >= 1 && i >= 0 && (i as u64) <= (rest - 1) as u64;
        assert!(ok == valid);
        if ok {
            let top = rest - 1;
            let other = top - i as usize;
            assert!(st.len() == rest);
            assert!(st[top] == arr[other] && st[other] == arr[top]);
            let mut k = 0;
            while k < N {
                if k < rest && k != top && k != other { assert!(st[k] == arr[k], "frame"); }
                k += 1;
            }
            kani::cover!(other == 0 && rest == N - 1);
            kani::cover!(i == 0);
        }
        kani::cover!(!ok && rest >= 1 && i == rest as Word);
    }
    core::mem::forget(st);
}

/// Select: [a, b, cond] -> [cond ? b : a]
#[kani::proof]
#[kani::unwind(8)]
fn c08_stack_select() {
    let (mut st, arr, len) = any_stack::<N>();
    let ok = run(asm::Stack::Select, &mut st);
    if len < 3 { assert!(!ok); } else {
        let c = arr[len - 1];
        assert!(ok == (c == 0 || c == 1));
        if ok {
            assert!(st.len() == len - 2);
            assert!(st[len - 3] == if c == 1 { arr[len - 2] } else { arr[len - 3] });
            assert!(prefix_eq(&st, &arr, len - 3));
            kani::cover!(c == 1); kani::cover!(c == 0);
        }
        kani::cover!(!ok);
    }
    core::mem::forget(st);
}

/// SelectRange: [a_0..a_{n-1}, b_0..b_{n-1}, n, cond] -> [cond ? b : a]
#[kani::proof]
#[kani::unwind(10)]
fn c08_stack_select_range() {
    const M: usize = 8;
    let (mut st, arr, len) = any_stack::<M>();
    let ok = run(asm::Stack::SelectRange, &mut st);
    if len < 2 { assert!(!ok); } else {
        let c = arr[len - 1];
        let n = arr[len - 2];
        let rest = len - 2;
        let valid = (c == 0 || c == 1) && n >= 0 && (n as i128) * 2 <= rest as i128;
        assert!(ok == valid);
        if ok {
            let n = n as usize;
            let base = rest - 2 * n;
            assert!(st.len() == base + n);
            let mut k = 0;
            while k < M / 2 {
                if k < n {
                    let want = if c == 1 { arr[base + n + k] } else { arr[base + k] };
                    assert!(st[base + k] == want, "kept range");
                }
                k += 1;
            }
            assert!(prefix_eq(&st, &arr, base));
            kani::cover!(n == 3 && c == 1); kani::cover!(n == 2 && c == 0); kani::cover!(n == 0);
        }
        kani::cover!(!ok && (c == 0 || c == 1) && n > 0);
    }
    core::mem::forget(st);
}


/// Load: [index] -> [stack[index]] (index from the bottom, after popping it).
#[kani::proof]
#[kani::unwind(8)]
fn c08_stack_load() {
    let (mut st, arr, len) = any_stack::<N>();
    let ok = run(asm::Stack::Load, &mut st);
    if len == 0 { assert!(!ok); } else {
        let i = arr[len - 1];
        let rest = len - 1;
        assert!(ok == (i >= 0 && (i as u64) < rest as u64));
        if ok {
            assert!(st.len() == len && st[rest] == arr[i as usize] && prefix_eq(&st, &arr, rest));
            kani::cover!(i as usize == rest - 1); kani::cover!(i == 0 && rest == N - 1);
        }
        kani::cover!(!ok && i == rest as Word);
    }
    core::mem::forget(st);
}

/// Store: [value, index] -> stack[index] = value.
#[kani::proof]
#[kani::unwind(8)]
fn c08_stack_store() {
    let (mut st, arr, len) = any_stack::<N>();
    let ok = run(asm::Stack::Store, &mut st);
    if len < 2 { assert!(!ok); } else {
        let i = arr[len - 1];
        let v = arr[len - 2];
        let rest = len - 2;
        assert!(ok == (i >= 0 && (i as u64) < rest as u64));
        if ok {
            assert!(st.len() == rest);
            let mut k = 0;
            while k < N {
                if k < rest { assert!(st[k] == if k == i as usize { v } else { arr[k] }, "only the addressed word changes"); }
                k += 1;
            }
            kani::cover!(i as usize == rest - 1 && rest == N - 2); kani::cover!(i == 0);
        }
        kani::cover!(!ok && i == rest as Word);
    }
    core::mem::forget(st);
}

/// Drop: [n] -> drops the top n words.
#[kani::proof]
#[kani::unwind(8)]
fn c08_stack_drop() {
    let (mut st, arr, len) = any_stack::<N>();
    let ok = run(asm::Stack::Drop, &mut st);
    if len == 0 { assert!(!ok); } else {
        let n = arr[len - 1];
        let rest = len - 1;
        assert!(ok == (n >= 0 && (n as u64) <= rest as u64));
        if ok {
            assert!(st.len() == rest - n as usize && prefix_eq(&st, &arr, rest - n as usize));
            kani::cover!(n as usize == rest && rest == N - 1); kani::cover!(n == 0);
        }
        kani::cover!(!ok && n == rest as Word + 1);
    }
    core::mem::forget(st);
}
