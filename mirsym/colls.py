"""Models: Option/Result, integer methods, Vec/slice/array, maps/sets, smart pointers, foreign crypto."""
import re
import z3

from mir import strip_generics, parse_ty
from values import *     # noqa


def S():
    import stdmodels
    return stdmodels


def deref(v):
    while isinstance(v, Ref): v = v.cell.v
    return v


def usize(n): return Int("usize", n)


# ------------------------------------------------------------------ Option
def option_method(name):
    st = S()

    def f(I, a, fr, d):
        o = deref(a[0])
        is_some = o.variant == "Some"
        val = o.cells[0].v if is_some else None
        if name == "is_some": return is_some
        if name == "is_none": return not is_some
        if name == "unwrap":
            if not is_some: raise Panic(f"called Option::unwrap() on a None value in {fr.fn.crate}::{fr.fn.name}")
            return val
        if name == "expect":
            if not is_some: raise Panic(f"Option::expect: {a[1].s if isinstance(a[1], StrV) else ''} in {fr.fn.crate}::{fr.fn.name}")
            return val
        if name == "unwrap_or": return val if is_some else a[1]
        if name == "unwrap_or_default":
            return val if is_some else st.default_of(I, d, fr)
        if name == "unwrap_or_else": return val if is_some else I.call_value(a[1], [])
        if name == "map": return st.some(I, I.call_value(a[1], [val])) if is_some else st.none(I)
        if name == "map_or": return I.call_value(a[2], [val]) if is_some else a[1]
        if name == "map_or_else": return I.call_value(a[2], [val]) if is_some else I.call_value(a[1], [])
        if name == "and_then": return I.call_value(a[1], [val]) if is_some else st.none(I)
        if name == "or_else": return o if is_some else I.call_value(a[1], [])
        if name == "or": return o if is_some else a[1]
        if name == "ok_or": return st.ok(I, val) if is_some else st.err(I, a[1])
        if name == "ok_or_else": return st.ok(I, val) if is_some else st.err(I, I.call_value(a[1], []))
        if name == "filter":
            if not is_some: return o
            keep = I.call_value(a[1], [Ref(o.cells[0])])
            return o if I.E.branch(keep, "filter") else st.none(I)
        if name in ("cloned", "copied"):
            return st.some(I, clone_val(deref(val))) if is_some else st.none(I)
        if name in ("as_ref", "as_mut"):
            return st.some(I, Ref(o.cells[0])) if is_some else st.none(I)
        if name == "as_deref":
            return st.some(I, st.t_deref(I, [Ref(o.cells[0])], fr, None)) if is_some else st.none(I)
        if name == "take":
            cell = a[0].cell
            v = cell.v; cell.v = st.none(I); return v
        if name == "replace":
            cell = a[0].cell
            v = cell.v; cell.v = st.some(I, a[1]); return v
        if name == "is_some_and": return bool(is_some) and I.call_value(a[1], [val])
        if name == "is_none_or": return (not is_some) or I.call_value(a[1], [val])
        if name == "and": return a[1] if is_some else o
        if name == "xor":
            b = a[1]
            if is_some and b.variant == "None": return o
            if not is_some and b.variant == "Some": return b
            return st.none(I)
        if name == "inspect":
            if is_some: I.call_value(a[1], [Ref(o.cells[0])])
            return o
        if name == "get_or_insert":
            cell = a[0].cell
            if not is_some: cell.v = st.some(I, a[1])
            return Ref(cell.v.cells[0])
        if name == "unzip":
            if is_some: return Agg(None, [Cell(st.some(I, val.cells[0].v)), Cell(st.some(I, val.cells[1].v))])
            return Agg(None, [Cell(st.none(I)), Cell(st.none(I))])
        if name == "unwrap_unchecked": return val
        if name == "iter" or name == "into_iter":
            return Iter("list", xs=[val] if is_some else [], i=0)
        if name == "flatten": return val if is_some else o
        if name == "zip":
            b = a[1]
            return st.some(I, Agg(None, [Cell(val), Cell(b.cells[0].v)])) if is_some and b.variant == "Some" else st.none(I)
        return NotImplemented
    return f


# ------------------------------------------------------------------ Result
def result_method(name):
    st = S()

    def f(I, a, fr, d):
        r = deref(a[0])
        is_ok = r.variant == "Ok"
        val = r.cells[0].v
        if name == "is_ok": return is_ok
        if name == "is_err": return not is_ok
        if name == "ok": return st.some(I, val) if is_ok else st.none(I)
        if name == "err": return st.none(I) if is_ok else st.some(I, val)
        if name == "map": return st.ok(I, I.call_value(a[1], [val])) if is_ok else r
        if name == "map_err": return r if is_ok else st.err(I, I.call_value(a[1], [val]))
        if name == "and_then": return I.call_value(a[1], [val]) if is_ok else r
        if name == "or_else": return r if is_ok else I.call_value(a[1], [val])
        if name == "unwrap":
            if not is_ok: raise Panic(f"called Result::unwrap() on an Err value in {fr.fn.crate}::{fr.fn.name}")
            return val
        if name == "expect":
            if not is_ok: raise Panic(f"Result::expect: {a[1].s if isinstance(a[1], StrV) else ''} in {fr.fn.crate}::{fr.fn.name}")
            return val
        if name == "unwrap_err":
            if is_ok: raise Panic("unwrap_err on Ok")
            return val
        if name == "unwrap_or": return val if is_ok else a[1]
        if name == "unwrap_or_default": return val if is_ok else st.default_of(I, d, fr)
        if name == "unwrap_or_else": return val if is_ok else I.call_value(a[1], [val])
        if name in ("as_ref", "as_mut"):
            return EnumV(r.d, r.variant, [Cell(Ref(r.cells[0]))])
        if name == "map_or": return I.call_value(a[2], [val]) if is_ok else a[1]
        if name == "map_or_else": return I.call_value(a[2], [val]) if is_ok else I.call_value(a[1], [val])
        if name == "is_ok_and": return bool(is_ok) and I.call_value(a[1], [val])
        if name == "is_err_and": return (not is_ok) and I.call_value(a[1], [val])
        if name == "and": return a[1] if is_ok else r
        if name == "or": return r if is_ok else a[1]
        if name == "expect_err":
            if is_ok: raise Panic(f"Result::expect_err on Ok in {fr.fn.crate}::{fr.fn.name}")
            return val
        if name in ("inspect", "inspect_err"):
            if is_ok == (name == "inspect"): I.call_value(a[1], [Ref(r.cells[0])])
            return r
        if name in ("copied", "cloned"):
            return st.ok(I, clone_val(deref(val))) if is_ok else r
        if name in ("iter", "into_iter"):
            return Iter("list", xs=[val] if is_ok else [], i=0)
        if name == "unwrap_unchecked": return val
        return NotImplemented
    return f


# ------------------------------------------------------------------ integers
def num_method(name, c):
    st = S()

    def f(I, a, fr, d):
        x = a[0]
        if name in ("checked_add", "checked_sub", "checked_mul"):
            r, o = int_overflow_op({"checked_add": "Add", "checked_sub": "Sub", "checked_mul": "Mul"}[name], x, a[1])
            return st.some(I, r) if I.E.branch(b_not(o), name) else st.none(I)
        if name in ("checked_div", "checked_rem"):
            y = a[1]
            zero = int_binop("Eq", y, Int(y.ty, 0))
            bad = zero
            if x.signed:
                mn = Int(x.ty, 1 << (x.bits - 1))
                bad = b_or(zero, b_and(int_binop("Eq", x, mn), int_binop("Eq", y, Int(y.ty, -1))))
            if not I.E.branch(b_not(bad), name): return st.none(I)
            return st.some(I, int_binop("Div" if name == "checked_div" else "Rem", x, y))
        if name in ("saturating_add", "saturating_sub", "saturating_mul"):
            op = {"saturating_add": "Add", "saturating_sub": "Sub", "saturating_mul": "Mul"}[name]
            r, o = int_overflow_op(op, x, a[1])
            if o is False: return r
            b = x.bits
            if x.signed:
                if op == "Mul": raise Unmodelled("signed saturating_mul")
                # overflow direction: add -> sign of rhs; sub -> opposite sign of rhs
                neg = int_binop("Lt", a[1], Int(x.ty, 0))
                to_min = neg if op == "Add" else b_not(neg)
                mn, mx = Int(x.ty, 1 << (b - 1)), Int(x.ty, (1 << (b - 1)) - 1)
                if isinstance(o, bool) and isinstance(to_min, bool):
                    return (mn if to_min else mx) if o else r
                return mk_int(x.ty, z3.If(b_z3(o), z3.If(b_z3(to_min), mn.z3(), mx.z3()), r.z3()))
            sat = Int(x.ty, (1 << b) - 1) if op != "Sub" else Int(x.ty, 0)
            if o is True: return sat
            return mk_int(x.ty, z3.If(o, sat.z3(), r.z3()))
        if name in ("wrapping_add", "wrapping_sub", "wrapping_mul"):
            return int_binop({"wrapping_add": "Add", "wrapping_sub": "Sub", "wrapping_mul": "Mul"}[name], x, a[1])
        if name in ("wrapping_div", "wrapping_rem", "wrapping_div_euclid", "wrapping_rem_euclid", "div_euclid", "rem_euclid",
                    "checked_div_euclid", "checked_rem_euclid", "saturating_div", "overflowing_div", "overflowing_rem"):
            y = a[1]
            checked = name.startswith("checked_")
            if not I.E.branch(b_not(int_binop("Eq", y, Int(y.ty, 0))), "divz"):
                if checked: return st.none(I)
                raise Panic(f"attempt to divide by zero ({name}) in {fr.fn.crate}::{fr.fn.name}")
            isdiv = "div" in name
            if x.signed:
                mn = Int(x.ty, 1 << (x.bits - 1))
                if I.E.branch(b_and(int_binop("Eq", x, mn), int_binop("Eq", y, Int(y.ty, -1))), "minneg"):
                    if checked: return st.none(I)
                    if name in ("div_euclid", "rem_euclid"):
                        raise Panic(f"attempt to {'divide' if isdiv else 'calculate the remainder'} with overflow ({name}) in {fr.fn.crate}::{fr.fn.name}")
                    if name == "saturating_div": return Int(x.ty, (1 << (x.bits - 1)) - 1)
                    r_ = mn if isdiv else Int(x.ty, 0)
                    return Agg(None, [Cell(r_), Cell(True)]) if name.startswith("overflowing") else r_
            q, r = int_binop("Div", x, y), int_binop("Rem", x, y)
            if "euclid" in name and x.signed:
                zero = Int(x.ty, 0)
                if I.E.branch(int_binop("Lt", r, zero), "euclid_neg"):
                    ypos = I.E.branch(int_binop("Gt", y, zero), "euclid_ypos")
                    r = int_binop("Add", r, y) if ypos else int_binop("Sub", r, y)
                    q = int_binop("Sub", q, Int(x.ty, 1)) if ypos else int_binop("Add", q, Int(x.ty, 1))
            out = q if isdiv else r
            if checked: return st.some(I, out)
            if name.startswith("overflowing"): return Agg(None, [Cell(out), Cell(False)])
            return out
        if name == "abs_diff":
            uty = "u" + x.ty[1:] if x.signed else x.ty
            lt = I.E.branch(int_binop("Lt", x, a[1]), "abs_diff")
            dlt = int_binop("Sub", a[1], x) if lt else int_binop("Sub", x, a[1])
            return Int(uty, dlt.v) if dlt.concrete else mk_int(uty, dlt.z3())
        if name in ("signum", "is_negative", "is_positive"):
            zero = Int(x.ty, 0)
            if name == "is_negative": return int_binop("Lt", x, zero)
            if name == "is_positive": return int_binop("Gt", x, zero)
            if I.E.branch(int_binop("Gt", x, zero), "signum+"): return Int(x.ty, 1)
            return Int(x.ty, -1) if I.E.branch(int_binop("Lt", x, zero), "signum-") else zero
        if name in ("checked_shl", "checked_shr", "overflowing_shl", "overflowing_shr"):
            y = a[1]
            big = int_binop("Ge", y, Int(y.ty, x.bits))
            r = int_binop("Shl" if name.endswith("shl") else "Shr", x, y)
            if name.startswith("overflowing"): return Agg(None, [Cell(r), Cell(big)])
            return st.none(I) if I.E.branch(big, name) else st.some(I, r)
        if name == "clamp":
            lo, hi = a[1], a[2]
            if I.E.branch(int_binop("Gt", lo, hi), "clamp_args"): raise Panic(f"assertion failed: min <= max (clamp) in {fr.fn.crate}::{fr.fn.name}")
            if I.E.branch(int_binop("Lt", x, lo), "clamp_lo"): return lo
            return hi if I.E.branch(int_binop("Gt", x, hi), "clamp_hi") else x
        if name in ("rotate_left", "rotate_right"):
            n = a[1]
            if x.concrete and n.concrete:
                k = n.v % x.bits
                if name == "rotate_right": k = (x.bits - k) % x.bits
                return Int(x.ty, ((x.v << k) | (x.v >> (x.bits - k))) & ((1 << x.bits) - 1))
            nn = n.z3()
            nn = z3.Extract(x.bits - 1, 0, nn) if n.bits > x.bits else (z3.ZeroExt(x.bits - n.bits, nn) if n.bits < x.bits else nn)
            return mk_int(x.ty, (z3.RotateLeft if name == "rotate_left" else z3.RotateRight)(x.z3(), nn))
        if name in ("swap_bytes", "to_be", "from_be"):
            bs = [z3.Extract(8 * i + 7, 8 * i, x.z3()) for i in range(x.bits // 8)]
            r = z3.simplify(z3.Concat(*bs)) if len(bs) > 1 else x.z3()
            return mk_int(x.ty, r)
        if name in ("to_le", "from_le"): return x
        if name in ("saturating_neg", "saturating_abs") and x.signed:
            mn = Int(x.ty, 1 << (x.bits - 1))
            if I.E.branch(int_binop("Eq", x, mn), name): return Int(x.ty, (1 << (x.bits - 1)) - 1)
            neg = Int(x.ty, -x.v) if x.concrete else mk_int(x.ty, -x.v)
            if name == "saturating_neg": return neg
            return neg if I.E.branch(int_binop("Lt", x, Int(x.ty, 0)), "sabs") else x
        if name in ("checked_pow", "pow", "wrapping_pow", "saturating_pow") and a[1].concrete and a[1].v <= 64:
            acc = Int(x.ty, 1)
            for _ in range(a[1].v):
                r, o = int_overflow_op("Mul", acc, x)
                if name != "wrapping_pow" and I.E.branch(o, "pow_ovf"):
                    if name == "checked_pow": return st.none(I)
                    if name == "saturating_pow": raise Unmodelled("saturating_pow overflow direction")
                    raise Panic(f"attempt to multiply with overflow (pow) in {fr.fn.crate}::{fr.fn.name}")
                acc = r
            return st.some(I, acc) if name == "checked_pow" else acc
        if name in ("checked_add_signed", "checked_sub_unsigned", "checked_add_unsigned", "checked_sub_signed",
                    "wrapping_add_signed", "saturating_add_signed", "wrapping_add_unsigned", "wrapping_sub_unsigned"):
            y = a[1]
            W2 = x.bits + 2
            ex = lambda v: (z3.SignExt(W2 - v.bits, v.z3()) if v.signed else z3.ZeroExt(W2 - v.bits, v.z3()))
            wide = ex(x) + ex(y) if "add" in name else ex(x) - ex(y)
            lo_ = -(1 << (x.bits - 1)) if x.signed else 0
            hi_ = (1 << (x.bits - 1)) - 1 if x.signed else (1 << x.bits) - 1
            inr = b_norm(z3.And(wide >= lo_, wide <= hi_))
            res = mk_int(x.ty, z3.simplify(z3.Extract(x.bits - 1, 0, wide)))
            if name.startswith("wrapping"): return res
            if I.E.branch(inr, name): return st.some(I, res) if name.startswith("checked") else res
            if name.startswith("checked"): return st.none(I)
            return Int(x.ty, hi_) if I.E.branch(b_norm(wide > hi_), "sat_hi") else Int(x.ty, lo_)
        if name == "wrapping_neg":
            return Int(x.ty, -x.v) if x.concrete else mk_int(x.ty, -x.v)
        if name == "wrapping_abs":
            if x.concrete: return Int(x.ty, abs(x.sval()))
            return mk_int(x.ty, z3.If(x.v < 0, -x.v, x.v))
        if name in ("wrapping_shl", "wrapping_shr"):
            return int_binop("Shl" if name.endswith("shl") else "Shr", x, a[1])
        if name in ("checked_neg",):
            mn = Int(x.ty, 1 << (x.bits - 1))
            if x.signed and I.E.branch(int_binop("Eq", x, mn), "negmin"): return st.none(I)
            return st.some(I, Int(x.ty, -x.v) if x.concrete else mk_int(x.ty, -x.v))
        if name in ("checked_abs",):
            mn = Int(x.ty, 1 << (x.bits - 1))
            if I.E.branch(int_binop("Eq", x, mn), "absmin"): return st.none(I)
            if x.concrete: return st.some(I, Int(x.ty, abs(x.sval())))
            return st.some(I, mk_int(x.ty, z3.If(x.v < 0, -x.v, x.v)))
        if name in ("overflowing_add", "overflowing_sub", "overflowing_mul"):
            r, o = int_overflow_op(name[12:].capitalize(), x, a[1])
            return Agg(None, [Cell(r), Cell(o)])
        if name == "abs":
            mn = Int(x.ty, 1 << (x.bits - 1))
            if not I.E.branch(b_not(int_binop("Eq", x, mn)), "abs"):
                raise Panic(f"attempt to negate with overflow (abs of MIN) in {fr.fn.crate}::{fr.fn.name}")
            if x.concrete: return Int(x.ty, abs(x.sval()))
            return mk_int(x.ty, z3.If(x.v < 0, -x.v, x.v))
        if name == "unsigned_abs":
            uty = "u" + x.ty[1:]
            if x.concrete: return Int(uty, abs(x.sval()))
            return mk_int(uty, z3.If(x.v < 0, -x.v, x.v))
        if name == "to_be_bytes" or name == "to_le_bytes" or name == "to_ne_bytes":
            n = x.bits // 8
            out = []
            for i in range(n):
                sh = (n - 1 - i) * 8 if name == "to_be_bytes" else i * 8
                if x.concrete: out.append(Int("u8", (x.v >> sh) & 0xFF))
                else: out.append(mk_int("u8", z3.Extract(sh + 7, sh, x.v)))
            return Seq([Cell(b) for b in out], "array")
        if name in ("from_be_bytes", "from_le_bytes", "from_ne_bytes"):
            m = re.search(r"<impl (\w+)>::from_", c) or re.search(r"(\w+)::from_[bln]e_bytes", c)
            ty = m.group(1)
            bs = [cc.v for cc in st.as_slice(x).cells()]
            if name != "from_be_bytes": bs = bs[::-1]
            if all(b.concrete for b in bs):
                v = 0
                for b in bs: v = (v << 8) | b.v
                return Int(ty, v)
            return mk_int(ty, z3.Concat(*[b.z3() for b in bs]))
        if name == "div_ceil":
            y = a[1]
            if not I.E.branch(b_not(int_binop("Eq", y, Int(y.ty, 0))), "divz"): raise Panic("division by zero in div_ceil")
            q = int_binop("Div", x, y); r = int_binop("Rem", x, y)
            nz = b_not(int_binop("Eq", r, Int(x.ty, 0)))
            if nz is True: return int_binop("Add", q, Int(x.ty, 1))
            if nz is False: return q
            return mk_int(x.ty, z3.If(nz, q.z3() + 1, q.z3()))
        if name in ("min", "max"):
            r = st.val_cmp(I, x, a[1])
            if name == "min": return x if r != "Greater" else a[1]
            return a[1] if r != "Greater" else x
        if name == "pow":
            if x.concrete and a[1].concrete:
                return Int(x.ty, x.sval() ** a[1].v)
        if name == "is_power_of_two" and x.concrete:
            return x.v != 0 and (x.v & (x.v - 1)) == 0
        if name == "count_ones" and x.concrete: return Int("u32", bin(x.v).count("1"))
        if name == "leading_zeros" and x.concrete: return Int("u32", x.bits - x.v.bit_length())
        if name == "trailing_zeros" and x.concrete: return Int("u32", (x.v & -x.v).bit_length() - 1 if x.v else x.bits)
        if name == "is_power_of_two":
            xv = x.z3()
            return b_norm(z3.And(xv != 0, (xv & (xv - 1)) == 0))
        if name in ("count_ones", "count_zeros"):
            tot = z3.BitVecVal(0, 32)
            for i in range(x.bits): tot = tot + z3.ZeroExt(31, z3.Extract(i, i, x.z3()))
            r = mk_int("u32", z3.simplify(tot))
            return r if name == "count_ones" else int_binop("Sub", Int("u32", x.bits), r)
        if name in ("leading_zeros", "trailing_zeros", "leading_ones", "trailing_ones"):
            xv = x.z3() if name.endswith("zeros") else ~x.z3()
            r = z3.BitVecVal(x.bits, 32)
            rng = range(x.bits) if name.startswith("leading") else range(x.bits - 1, -1, -1)
            for i in rng:      # the last assignment that applies wins: highest set bit (leading) / lowest set bit (trailing)
                cnt = (x.bits - 1 - i) if name.startswith("leading") else i
                r = z3.If(z3.Extract(i, i, xv) == 1, z3.BitVecVal(cnt, 32), r)
            return mk_int("u32", z3.simplify(r))
        return NotImplemented
    return f


# ------------------------------------------------------------------ Vec
MAX_ALLOC_BYTES = (1 << 63) - 1


def elem_size_from(c, d=None):
    """size in bytes of the element type named in `Vec::<T>::with_capacity`"""
    m = re.search(r"Vec::<(.+?)(?:, .*)?>::", c)
    t = parse_ty(m.group(1)) if m else None
    return size_of(t)


def size_of(t):
    if t is None: return 8
    if t.kind == "int": return INT_BITS[t.name] // 8
    if t.kind == "bool": return 1
    if t.kind == "array": return size_of(t.args[0]) * t.n
    if t.kind == "tuple": return max(1, sum(size_of(x) for x in t.args)) if t.args else 0
    if t.kind == "adt" and t.last() in ("Vec", "String"): return 24
    if t.kind == "ref": return 16 if t.args[0].kind in ("slice", "str") else 8
    if t.kind == "adt":
        import defs
        cands = [v for (c, n), v in defs.STRUCTS.items() if n == t.last()]
        if len(cands) >= 1:
            from mir import parse_ty as _p
            tot, al = 0, 1
            for f in cands[0]:
                try:
                    ft = _p(f.replace(" ", "") if "<" not in f else f)
                except Exception:
                    return 24
                s = size_of(ft)
                a = 8 if s >= 8 else max(1, s if s in (1, 2, 4) else 1)
                al = max(al, a)
                tot += s
            return ((tot + al - 1) // al) * al
    return 24


def vec_method(name, c):
    st = S()

    def f(I, a, fr, d):
        if name == "new": return Seq([], "vec")
        if name == "with_capacity":
            n = a[0]
            es = elem_size_from(c)
            if es > 0:
                lim = MAX_ALLOC_BYTES // es
                fits = int_binop("Le", n, usize(lim))
                if not I.E.branch(fits, "cap"):
                    raise Panic(f"capacity overflow in Vec::with_capacity ({fr.fn.crate}::{fr.fn.name})")
                # more bytes than the whole 47-bit user address space: the allocation fails and
                # handle_alloc_error aborts the process
                huge = int_binop("Gt", n, usize((1 << 47) // es))
                if I.E.branch(huge, "alloc"):
                    raise Panic(f"allocation of more than 2^47 bytes aborts in Vec::with_capacity ({fr.fn.crate}::{fr.fn.name})")
            return Seq([], "vec")
        v = deref(a[0])
        if isinstance(v, Agg) and len(v.cells) == 1: v = v.cells[0].v
        if name == "len": return usize(len(v.cells))
        if name == "is_empty": return len(v.cells) == 0
        if name == "push": v.cells.append(Cell(a[1])); return unit()
        if name == "pop":
            return st.some(I, v.cells.pop().v) if v.cells else st.none(I)
        if name == "truncate":
            n = I.E.concretize(a[1], cap=4200, label="truncate") if not a[1].concrete else a[1].v
            if n < len(v.cells): del v.cells[n:]
            return unit()
        if name == "clear": del v.cells[:]; return unit()
        if name in ("dedup", "dedup_by_key"):
            out = []
            for cc in v.cells:
                x, y = (out[-1].v, cc.v) if out else (None, None)
                if out and name == "dedup_by_key":
                    x, y = I.call_value(a[1], [Ref(out[-1])]), I.call_value(a[1], [Ref(cc)])
                if out and I.E.branch(key_eq(I, x, y), "dedup"): continue
                out.append(cc)
            v.cells[:] = out
            return unit()
        if name in ("reserve", "shrink_to_fit", "reserve_exact", "shrink_to"): return unit()
        if name == "resize":
            n = a[1]
            nn = I.E.concretize(n, cap=64, label="resize") if not n.concrete else n.v
            if nn > 100000: raise Unmodelled(f"Vec::resize to {nn} elements (bound)")
            if nn < len(v.cells): del v.cells[nn:]
            else:
                for _ in range(nn - len(v.cells)): v.cells.append(Cell(clone_val(a[2])))
            return unit()
        if name == "append":
            o = deref(a[1])
            v.cells.extend(o.cells); o.cells = []
            return unit()
        if name == "extend_from_slice":
            v.cells.extend(Cell(clone_val(cc.v)) for cc in st.as_slice(a[1]).cells()); return unit()
        if name == "insert":
            i = a[1].v if a[1].concrete else I.E.concretize(a[1])
            if i > len(v.cells): raise Panic("Vec::insert index out of bounds")
            v.cells.insert(i, Cell(a[2])); return unit()
        if name == "remove":
            i = a[1].v if a[1].concrete else I.E.concretize(a[1])
            if i >= len(v.cells): raise Panic("Vec::remove index out of bounds")
            return v.cells.pop(i).v
        if name == "swap_remove":
            i = a[1].v if a[1].concrete else I.E.concretize(a[1])
            if i >= len(v.cells): raise Panic("Vec::swap_remove index out of bounds")
            x = v.cells[i].v; v.cells[i] = v.cells[-1]; v.cells.pop(); return x
        if name in ("as_slice", "as_mut_slice"): return SliceRef(v, 0, len(v.cells))
        if name == "capacity": return usize(len(v.cells))
        if name == "retain":
            keep = []
            for cc in v.cells:
                if I.E.branch(I.call_value(a[1], [Ref(cc)]), "retain"): keep.append(cc)
            v.cells[:] = keep; return unit()
        if name == "drain":
            # eager: the range is removed now, the removed elements are yielded (a leaked Drain is not modelled)
            r = range_bounds(I, a[1], len(v.cells), panic=f"Vec::drain: range out of bounds in {fr.fn.crate}::{fr.fn.name}")
            out = [cc.v for cc in v.cells[r[0]:r[1]]]
            del v.cells[r[0]:r[1]]
            return Iter("list", xs=out, i=0)
        if name == "split_off":
            at = a[1].v if a[1].concrete else I.E.concretize(a[1], cap=len(v.cells) + 2, label="split_off")
            if at > len(v.cells): raise Panic(f"Vec::split_off: at > len in {fr.fn.crate}::{fr.fn.name}")
            tail = v.cells[at:]; del v.cells[at:]
            return Seq(tail, "vec")
        if name == "resize_with":
            nn = I.E.concretize(a[1], cap=64, label="resize") if not a[1].concrete else a[1].v
            if nn > 100000: raise Unmodelled(f"Vec::resize_with to {nn} elements (bound)")
            if nn < len(v.cells): del v.cells[nn:]
            else:
                for _ in range(nn - len(v.cells)): v.cells.append(Cell(I.call_value(a[2], [])))
            return unit()
        if name == "extend_from_within":
            r = range_bounds(I, a[1], len(v.cells), panic=f"Vec::extend_from_within: range out of bounds in {fr.fn.crate}::{fr.fn.name}")
            v.cells.extend([Cell(clone_val(cc.v)) for cc in v.cells[r[0]:r[1]]]); return unit()
        if name == "retain_mut":
            keep = []
            for cc in v.cells:
                if I.E.branch(I.call_value(a[1], [Ref(cc)]), "retain"): keep.append(cc)
            v.cells[:] = keep; return unit()
        if name == "into_boxed_slice":
            raise Unmodelled("Vec::" + name)
        r = slice_method(name, c)(I, a, fr, d)
        return r
    return f


def vec_from(I, v):
    st = S()
    x = deref(v)
    if isinstance(x, (Seq, SliceRef)):
        return Seq([Cell(clone_val(c.v)) for c in st.as_slice(x).cells()], "vec")
    raise Unmodelled("Vec::from " + type(x).__name__)


def array_try_from(I, v, t):
    st = S()
    x = deref(v)
    sl = st.as_slice(x)
    if len(sl) != t.n: return st.err(I, Opaque("TryFromSliceError"))
    if isinstance(v, (Ref, SliceRef)) and not isinstance(x, Seq) or isinstance(v, SliceRef):
        # &[T] -> [T; N] (copy) ; &[T] -> &[T; N] not distinguished (both by value semantics on read)
        return st.ok(I, Seq([Cell(clone_val(c.v)) for c in sl.cells()], "array"))
    return st.ok(I, Seq([Cell(c.v) for c in sl.cells()], "array"))


def opaque_to_array(I, v, d):
    if isinstance(v.payload, list):
        return Seq([Cell(b) for b in v.payload], "array")
    raise Unmodelled("opaque -> array")


# ------------------------------------------------------------------ slices
def slice_method(name, c):
    st = S()

    def f(I, a, fr, d):
        if name == "from_ref": return SliceRef(Seq([a[0].cell], "array"), 0, 1)
        s = st.as_slice(a[0])
        n = len(s)
        if name == "len": return usize(n)
        if name == "is_empty": return n == 0
        if name in ("iter", "iter_mut"): return Iter("slice", s=s, i=s.lo, hi=s.hi)
        if name in ("as_slice", "as_mut_slice", "as_ref"): return s
        if name in ("first", "first_mut"): return st.some(I, Ref(s.seq.cells[s.lo])) if n else st.none(I)
        if name in ("last", "last_mut"): return st.some(I, Ref(s.seq.cells[s.hi - 1])) if n else st.none(I)
        if name in ("get", "get_mut", "get_unchecked"):
            ix = a[1]
            if isinstance(ix, Int):
                inb = int_binop("Lt", ix, usize(n))
                if not I.E.branch(inb, "get"): return st.none(I)
                i = I.E.concretize(ix, cap=max(n, 1) + 1, label="get")
                return st.some(I, Ref(s.seq.cells[s.lo + i]))
            r = range_bounds(I, ix, n)
            if r is None: return st.none(I)
            return st.some(I, SliceRef(s.seq, s.lo + r[0], s.lo + r[1]))
        if name == "split_at" or name == "split_at_mut":
            inb = int_binop("Le", a[1], usize(n))
            if not I.E.branch(inb, "split_at"): raise Panic(f"split_at: mid > len in {fr.fn.crate}::{fr.fn.name}")
            m = I.E.concretize(a[1], cap=n + 2, label="split")
            return Agg(None, [Cell(SliceRef(s.seq, s.lo, s.lo + m)), Cell(SliceRef(s.seq, s.lo + m, s.hi))])
        if name in ("split_last", "split_last_mut"):
            if n == 0: return st.none(I)
            return st.some(I, Agg(None, [Cell(Ref(s.seq.cells[s.hi - 1])), Cell(SliceRef(s.seq, s.lo, s.hi - 1))]))
        if name in ("split_first", "split_first_mut"):
            if n == 0: return st.none(I)
            return st.some(I, Agg(None, [Cell(Ref(s.seq.cells[s.lo])), Cell(SliceRef(s.seq, s.lo + 1, s.hi))]))
        if name == "to_vec" or name == "to_owned":
            return Seq([Cell(clone_val(cc.v)) for cc in s.cells()], "vec")
        if name == "copy_from_slice" or name == "clone_from_slice":
            o = st.as_slice(a[1])
            if len(o) != n: raise Panic(f"copy_from_slice: source slice length ({len(o)}) does not match destination ({n}) in {fr.fn.crate}::{fr.fn.name}")
            vals = [clone_val(cc.v) for cc in o.cells()]
            for cc, v in zip(s.cells(), vals): cc.v = v
            return unit()
        if name == "swap":
            i = I.E.concretize(a[1], cap=n + 1); j = I.E.concretize(a[2], cap=n + 1)
            if i >= n or j >= n: raise Panic(f"slice::swap index out of bounds in {fr.fn.crate}::{fr.fn.name}")
            ci, cj = s.seq.cells[s.lo + i], s.seq.cells[s.lo + j]
            ci.v, cj.v = cj.v, ci.v
            return unit()
        if name == "copy_within":
            r = range_bounds(I, a[1], n, panic=f"copy_within: range out of bounds in {fr.fn.crate}::{fr.fn.name}")
            dest = I.E.concretize(a[2], cap=n + 2)
            cnt = r[1] - r[0]
            if dest > n - cnt: raise Panic(f"copy_within: dest is out of bounds in {fr.fn.crate}::{fr.fn.name}")
            vals = [clone_val(s.seq.cells[s.lo + r[0] + k].v) for k in range(cnt)]
            for k, v in enumerate(vals): s.seq.cells[s.lo + dest + k].v = v
            return unit()
        if name == "contains":
            r = False
            for cc in s.cells():
                r = b_or(r, st.val_eq(I, cc.v, a[1]))
            return r
        if name == "starts_with":
            o = st.as_slice(a[1])
            if len(o) > n: return False
            return st.val_eq(I, SliceRef(s.seq, s.lo, s.lo + len(o)), o)
        if name == "ends_with":
            o = st.as_slice(a[1])
            if len(o) > n: return False
            return st.val_eq(I, SliceRef(s.seq, s.hi - len(o), s.hi), o)
        if name in ("strip_prefix", "strip_suffix"):
            o = st.as_slice(a[1])
            if len(o) > n: return st.none(I)
            if name == "strip_prefix":
                hit = st.val_eq(I, SliceRef(s.seq, s.lo, s.lo + len(o)), o); rest = SliceRef(s.seq, s.lo + len(o), s.hi)
            else:
                hit = st.val_eq(I, SliceRef(s.seq, s.hi - len(o), s.hi), o); rest = SliceRef(s.seq, s.lo, s.hi - len(o))
            return st.some(I, rest) if I.E.branch(hit, name) else st.none(I)
        if name in ("rotate_left", "rotate_right"):
            k = a[1].v if a[1].concrete else I.E.concretize(a[1], cap=n + 2, label="rotate")
            if k > n: raise Panic(f"slice::{name}: mid > len in {fr.fn.crate}::{fr.fn.name}")
            vals = [cc.v for cc in s.cells()]
            if name == "rotate_right": k = n - k
            vals = vals[k:] + vals[:k]
            for cc, v in zip(s.cells(), vals): cc.v = v
            return unit()
        if name == "fill_with":
            for cc in s.cells(): cc.v = I.call_value(a[1], [])
            return unit()
        if name == "is_sorted":
            cs = [cc.v for cc in s.cells()]
            for x, y in zip(cs, cs[1:]):
                if st.val_cmp(I, x, y) == "Greater": return False
            return True
        if name in ("binary_search", "binary_search_by_key", "binary_search_by"):
            # linear scan with the result binary search gives on a sorted slice without duplicates of the probe
            for i, cc in enumerate(s.cells()):
                if name == "binary_search": o = st.val_cmp(I, cc.v, deref(a[1]))
                elif name == "binary_search_by": o = I.call_value(a[1], [Ref(cc)]).variant
                else: o = st.val_cmp(I, I.call_value(a[2], [Ref(cc)]), deref(a[1]))
                if o == "Equal": return st.ok(I, usize(i))
                if o == "Greater": return st.err(I, usize(i))
            return st.err(I, usize(n))
        if name == "repeat":
            k = a[1].v if a[1].concrete else I.E.concretize(a[1], cap=64, label="repeat")
            return Seq([Cell(clone_val(cc.v)) for _ in range(k) for cc in s.cells()], "vec")
        if name in ("rchunks", "rchunks_exact"):
            k = a[1].v
            if k == 0: raise Panic("chunk size must be non-zero")
            xs = [SliceRef(s.seq, max(s.hi - i - k, s.lo), s.hi - i) for i in range(0, n, k)]
            if name != "rchunks": xs = [x for x in xs if len(x) == k]
            return Iter("list", xs=xs, i=0)
        if name in ("chunks_exact", "chunks_exact_mut", "chunks"):
            k = a[1].v
            if k == 0: raise Panic("chunk size must be non-zero")
            xs = [SliceRef(s.seq, s.lo + i, min(s.lo + i + k, s.hi)) for i in range(0, n, k)]
            if name != "chunks": xs = [x for x in xs if len(x) == k]
            return Iter("list", xs=xs, i=0)
        if name in ("sort", "sort_unstable", "sort_by_key", "sort_by", "sort_unstable_by_key", "sort_unstable_by"):
            keyf = a[1] if len(a) > 1 else None
            vals = [cc.v for cc in s.cells()]
            def less_eq(x, y):
                if keyf is not None and name.endswith("by_key"):
                    x, y = I.call_value(keyf, [Ref(Cell(x))]), I.call_value(keyf, [Ref(Cell(y))])
                elif keyf is not None:
                    o = I.call_value(keyf, [Ref(Cell(x)), Ref(Cell(y))])
                    return o.variant != "Greater"
                return st.val_cmp(I, x, y) != "Greater"
            # insertion sort (stable); comparisons fork where symbolic => "ascending permutation"
            out = []
            for v in vals:
                pos = len(out)
                while pos > 0 and not less_eq(out[pos - 1], v): pos -= 1
                out.insert(pos, v)
            for cc, v in zip(s.cells(), out): cc.v = v
            return unit()
        if name == "reverse":
            vals = [cc.v for cc in s.cells()][::-1]
            for cc, v in zip(s.cells(), vals): cc.v = v
            return unit()
        if name == "fill":
            for cc in s.cells(): cc.v = clone_val(a[1])
            return unit()
        if name == "concat":
            out = []
            for cc in s.cells(): out.extend(Cell(clone_val(x.v)) for x in st.as_slice(cc.v).cells())
            return Seq(out, "vec")
        if name == "into_vec":
            return Seq(list(s.cells()), "vec")
        if name == "windows":
            k = a[1].v
            return Iter("list", xs=[SliceRef(s.seq, s.lo + i, s.lo + i + k) for i in range(0, n - k + 1)], i=0)
        return NotImplemented
    return f


def range_bounds(I, r, n, panic=None):
    """concrete (lo, hi) of a Range / RangeTo / RangeFrom / RangeFull / RangeInclusive value within len n,
    or None (or Panic) when out of bounds"""
    nm = (r.name or "") if isinstance(r, Agg) else ""
    lo, hi = Int("usize", 0), Int("usize", n)
    short = nm.split("::")[-1]
    if short == "Range": lo, hi = r.cells[0].v, r.cells[1].v
    elif short == "RangeTo": hi = r.cells[0].v
    elif short == "RangeFrom": lo = r.cells[0].v
    elif short == "RangeFull": pass
    elif short == "RangeInclusive":
        lo = r.cells[0].v
        hi = int_binop("Add", r.cells[1].v, Int("usize", 1))
    else:
        raise Unmodelled("range type " + nm)
    okc = b_and(int_binop("Le", lo, hi), int_binop("Le", hi, Int("usize", n)))
    if not I.E.branch(okc, "range"):
        if panic: raise Panic(panic)
        return None
    l = I.E.concretize(lo, cap=n + 2, label="lo"); h = I.E.concretize(hi, cap=n + 2, label="hi")
    return l, h


def index(I, a, fr, d):
    st = S()
    base = deref(a[0])
    ix = a[1]
    if isinstance(base, MapV):
        k = deref(ix)
        i = map_lookup(I, base, k)
        if i is None: raise Panic(f"map index: key not found in {fr.fn.crate}::{fr.fn.name}")
        return Ref(base.items[i][1])
    s = st.as_slice(base)
    n = len(s)
    if isinstance(ix, Int):
        if not I.E.branch(int_binop("Lt", ix, usize(n)), "idx"):
            raise Panic(f"index out of bounds: the len is {n} in {fr.fn.crate}::{fr.fn.name}")
        i = I.E.concretize(ix, cap=n + 1, label="idx")
        return Ref(s.seq.cells[s.lo + i])
    r = range_bounds(I, ix, n, panic=f"slice index range out of bounds (len {n}) in {fr.fn.crate}::{fr.fn.name}")
    return SliceRef(s.seq, s.lo + r[0], s.lo + r[1])


def extend(I, a, fr, d):
    import iters
    v = deref(a[0])
    it = iters.to_iter(I, a[1])
    if isinstance(v, Seq):
        while True:
            x = iters.next_(I, it)
            if x is iters.END: break
            v.cells.append(Cell(x))
        return unit()
    if isinstance(v, SetV):
        while True:
            x = iters.next_(I, it)
            if x is iters.END: break
            set_insert(I, v, x)
        return unit()
    if isinstance(v, MapV):
        while True:
            x = iters.next_(I, it)
            if x is iters.END: break
            map_insert(I, v, x.cells[0].v, x.cells[1].v)
        return unit()
    raise Unmodelled("extend on " + type(v).__name__)


# ------------------------------------------------------------------ maps / sets
def key_eq(I, a, b):
    return S().val_eq(I, a, b)


def map_lookup(I, m, k):
    for i, (kk, _) in enumerate(m.items):
        if I.E.branch(key_eq(I, kk, k), "key"): return i
    return None


def map_insert(I, m, k, v):
    st = S()
    i = map_lookup(I, m, k)
    if i is None:
        m.items.append((k, Cell(v))); return st.none(I)
    old = m.items[i][1].v
    m.items[i][1].v = v
    return st.some(I, old)


def set_insert(I, s, k):
    for kk in s.items:
        if I.E.branch(key_eq(I, kk, k), "setkey"): return False
    s.items.append(k)
    return True


def set_contains(I, s, k):
    for kk in s.items:
        if I.E.branch(key_eq(I, kk, k), "setkey"): return True
    return False


def set_eq(I, a, b):
    if len(a.items) != len(b.items): return False
    for k in a.items:
        if not set_contains(I, b, k): return False
    return True


def map_eq(I, a, b):
    st = S()
    if len(a.items) != len(b.items): return False
    for k, c in a.items:
        i = map_lookup(I, b, k)
        if i is None: return False
        if not I.E.branch(st.val_eq(I, c.v, b.items[i][1].v), "mapval"): return False
    return True


def sorted_items(I, m):
    """items of a BTreeMap in ascending key order (comparisons fork where symbolic)"""
    st = S()
    out = []
    for k, c in m.items:
        pos = len(out)
        while pos > 0 and st.val_cmp(I, out[pos - 1][0], k) == "Greater": pos -= 1
        out.insert(pos, (k, c))
    return out


def hash_order(I, items):
    """iteration order of a HashMap / HashSet is unspecified: with two or more entries both the insertion order and its
    reverse are explored (a result that depends on the order shows up as a path that violates the oracle)"""
    if len(items) >= 2 and I.E.choose(2, "hash_order"): return items[::-1]
    return items


def sorted_keys(I, sv):
    """items of a set; ascending for a BTreeSet (comparisons fork where symbolic), insertion order for a HashSet"""
    if sv.kind != "btree": return hash_order(I, list(sv.items))
    st = S()
    out = []
    for k in sv.items:
        pos = len(out)
        while pos > 0 and st.val_cmp(I, out[pos - 1], k) == "Greater": pos -= 1
        out.insert(pos, k)
    return out


def map_method(head, name, plain):
    st = S()
    kind = "btree" if ("BTree" in head or "btree" in plain) else "hash"

    def f(I, a, fr, d):
        if name == "new" or name == "with_capacity": return MapV(kind)
        if name == "and_modify":
            m, k = a[0].payload
            i = map_lookup(I, m, k)
            if i is not None: I.call_value(a[1], [Ref(m.items[i][1])])
            return a[0]
        if name == "key" and isinstance(a[0], Opaque) and a[0].tag == "entry":
            return Ref(Cell(a[0].payload[1]))
        if name in ("or_default", "or_insert", "or_insert_with"):
            ent = a[0]
            m, k = ent.payload
            i = map_lookup(I, m, k)
            if i is None:
                if name == "or_default":
                    v = st.default_of(I, d.args[0] if d is not None and d.kind == "ref" else None, fr) if d is not None else Seq([], "vec")
                elif name == "or_insert": v = a[1]
                else: v = I.call_value(a[1], [])
                m.items.append((k, Cell(v))); i = len(m.items) - 1
            return Ref(m.items[i][1])
        m = deref(a[0])
        if name == "entry": return Opaque("entry", (m, a[1]))
        if name in ("get", "get_mut"):
            i = map_lookup(I, m, deref(a[1]))
            return st.none(I) if i is None else st.some(I, Ref(m.items[i][1]))
        if name == "contains_key": return map_lookup(I, m, deref(a[1])) is not None
        if name == "insert": return map_insert(I, m, a[1], a[2])
        if name == "remove":
            i = map_lookup(I, m, deref(a[1]))
            if i is None: return st.none(I)
            return st.some(I, m.items.pop(i)[1].v)
        if name == "is_empty": return len(m.items) == 0
        if name == "len": return usize(len(m.items))
        if name == "clear": m.items = []; return unit()
        if name in ("iter", "iter_mut"):
            items = sorted_items(I, m) if m.kind == "btree" else hash_order(I, list(m.items))
            return Iter("list", xs=[Agg(None, [Cell(Ref(Cell(k))), Cell(Ref(c))]) for k, c in items], i=0)
        if name == "keys":
            items = sorted_items(I, m) if m.kind == "btree" else hash_order(I, list(m.items))
            return Iter("list", xs=[Ref(Cell(k)) for k, c in items], i=0)
        if name in ("values", "values_mut"):
            items = sorted_items(I, m) if m.kind == "btree" else hash_order(I, list(m.items))
            return Iter("list", xs=[Ref(c) for k, c in items], i=0)
        if name in ("into_values",):
            items = sorted_items(I, m) if m.kind == "btree" else hash_order(I, list(m.items))
            return Iter("list", xs=[c.v for k, c in items], i=0)
        if name == "into_keys":
            items = sorted_items(I, m) if m.kind == "btree" else hash_order(I, list(m.items))
            return Iter("list", xs=[k for k, c in items], i=0)
        if name in ("first_key_value", "last_key_value", "pop_first", "pop_last") and m.kind == "btree":
            items = sorted_items(I, m)
            if not items: return st.none(I)
            k, c = items[0] if "first" in name else items[-1]
            if name.startswith("pop"):
                m.items = [(kk, cc) for kk, cc in m.items if cc is not c]
                return st.some(I, Agg(None, [Cell(k), Cell(c.v)]))
            return st.some(I, Agg(None, [Cell(Ref(Cell(k))), Cell(Ref(c))]))
        if name == "get_key_value":
            i = map_lookup(I, m, deref(a[1]))
            return st.none(I) if i is None else st.some(I, Agg(None, [Cell(Ref(Cell(m.items[i][0]))), Cell(Ref(m.items[i][1]))]))
        if name == "remove_entry":
            i = map_lookup(I, m, deref(a[1]))
            if i is None: return st.none(I)
            k, c = m.items.pop(i)
            return st.some(I, Agg(None, [Cell(k), Cell(c.v)]))
        if name == "retain":
            keep = []
            for k, c in (sorted_items(I, m) if m.kind == "btree" else m.items):
                if I.E.branch(I.call_value(a[1], [Ref(Cell(k)), Ref(c)]), "retain"): keep.append((k, c))
            m.items = keep; return unit()
        if name == "and_modify":
            pass
        return NotImplemented
    return f


def set_method(head, name):
    st = S()
    kind = "btree" if "BTree" in head else "hash"

    def f(I, a, fr, d):
        if name in ("new", "with_capacity"): return SetV(kind)
        s = deref(a[0])
        if name == "insert": return set_insert(I, s, a[1])
        if name == "contains": return set_contains(I, s, deref(a[1]))
        if name == "len": return usize(len(s.items))
        if name == "is_empty": return len(s.items) == 0
        if name == "clear":
            del s.items[:]; return unit()
        if name == "remove":
            k = deref(a[1])
            for i, kk in enumerate(s.items):
                if I.E.branch(key_eq(I, kk, k), "setkey"):
                    s.items.pop(i); return True
            return False
        if name == "iter":
            return Iter("list", xs=[Ref(Cell(k)) for k in sorted_keys(I, s)], i=0)
        if name == "get":
            k = deref(a[1])
            for kk in s.items:
                if I.E.branch(key_eq(I, kk, k), "setkey"): return st.some(I, Ref(Cell(kk)))
            return st.none(I)
        if name == "take":
            k = deref(a[1])
            for i, kk in enumerate(s.items):
                if I.E.branch(key_eq(I, kk, k), "setkey"): return st.some(I, s.items.pop(i))
            return st.none(I)
        if name in ("first", "last", "pop_first", "pop_last") and s.kind == "btree":
            ks = sorted_keys(I, s)
            if not ks: return st.none(I)
            k = ks[0] if "first" in name else ks[-1]
            if name.startswith("pop"):
                s.items = [x for x in s.items if x is not k]
                return st.some(I, k)
            return st.some(I, Ref(Cell(k)))
        if name in ("is_subset", "is_superset", "is_disjoint"):
            o = deref(a[1])
            x, y = (s, o) if name != "is_superset" else (o, s)
            for k in x.items:
                hit = set_contains(I, y, k)
                hit = hit if isinstance(hit, bool) else I.E.branch(hit, name)
                if name == "is_disjoint" and hit: return False
                if name != "is_disjoint" and not hit: return False
            return True
        if name in ("union", "intersection", "difference", "symmetric_difference"):
            o = deref(a[1])
            def has(sv, k):
                h = set_contains(I, sv, k)
                return h if isinstance(h, bool) else I.E.branch(h, name)
            if name == "union": out = list(s.items) + [k for k in o.items if not has(s, k)]
            elif name == "intersection": out = [k for k in s.items if has(o, k)]
            elif name == "difference": out = [k for k in s.items if not has(o, k)]
            else: out = [k for k in s.items if not has(o, k)] + [k for k in o.items if not has(s, k)]
            tmp = SetV(s.kind); tmp.items = out
            return Iter("list", xs=[Ref(Cell(k)) for k in sorted_keys(I, tmp)], i=0)
        if name == "retain":
            s.items = [k for k in sorted_keys(I, s) if I.E.branch(I.call_value(a[1], [Ref(Cell(k))]), "retain")]
            return unit()
        return NotImplemented
    return f


# ------------------------------------------------------------------ Arc / Box / Rc
def ptr_method(head, name, plain):
    st = S()

    def f(I, a, fr, d):
        kind = head.lower() if head in ("Arc", "Box", "Rc") else "box"
        if name in ("new", "pin"): return Ptr(Cell(a[0]), kind)
        if name == "new_uninit": return Ptr(Cell(None), kind)
        if name == "box_assume_init_into_vec_unsafe":
            v = a[0].cell.v
            # MaybeUninit { uninit, value: ManuallyDrop(MaybeDangling(array)) }
            while isinstance(v, Agg):
                v = v.cells[1].v if len(v.cells) > 1 and v.cells[1].v is not None else v.cells[0].v
            return Seq(list(v.cells), "vec") if isinstance(v, Seq) else v
        if name == "write":
            a[0].cell.v = a[1]; return a[0]
        if name == "assume_init": return a[0]
        p = deref(a[0])
        if name == "try_unwrap":
            if isinstance(p.rc.v, int) and p.rc.v == 1: return st.ok(I, p.cell.v)
            return st.err(I, p)
        if name == "unwrap_or_clone":
            if isinstance(p.rc.v, int) and p.rc.v == 1: return p.cell.v
            p.rc.v -= 1
            return clone_val(p.cell.v)
        if name == "into_inner":
            return st.some(I, p.cell.v) if p.rc.v == 1 else st.none(I)
        if name == "strong_count": return usize(p.rc.v)
        if name in ("as_ref", "as_ptr", "get_mut", "make_mut"): return Ref(p.cell)
        if name == "clone":
            p.rc.v += 1; return p
        if name == "ptr_eq": return deref(a[0]) is deref(a[1])
        if name == "into_vec" or name == "into_boxed_slice": return p.cell.v
        return NotImplemented
    return f


# ------------------------------------------------------------------ Mutex (single-threaded semantics + event log)
def mutex_method(name):
    st = S()

    def f(I, a, fr, d):
        log = getattr(I, "event_log", None)
        if name == "new":
            return Agg("Mutex", [Cell(a[0]), Cell(False), Cell(False)])     # data, locked, poisoned
        m = deref(a[0])
        if name == "lock":
            if m.cells[1].v is True:
                raise Panic("deadlock: Mutex::lock while already held by this thread (non-reentrant)")
            m.cells[1].v = True
            if log is not None: log.append(("lock", id(m)))
            g = Opaque("MutexGuard", m.cells[0]); I.guards = getattr(I, "guards", {}); I.guards[id(g)] = m
            if m.cells[2].v is True: return st.err(I, Opaque("PoisonError", g))
            return st.ok(I, g)
        if name == "try_lock":
            if log is not None: log.append(("try_lock", id(m)))
            if m.cells[1].v is True: return st.err(I, Opaque("WouldBlock"))
            m.cells[1].v = True
            g = Opaque("MutexGuard", m.cells[0]); I.guards = getattr(I, "guards", {}); I.guards[id(g)] = m
            return st.ok(I, g)
        if name == "into_inner": return st.ok(I, m.cells[0].v)
        if name == "get_mut": return st.ok(I, Ref(m.cells[0]))
        if name == "is_poisoned": return m.cells[2].v
        return NotImplemented
    return f


# ------------------------------------------------------------------ strings (opaque)
def string_method(name):
    def f(I, a, fr, d):
        if name == "new": return Seq([], "string")
        if name == "from" and isinstance(deref(a[0]), StrV): return deref(a[0])
        s0 = deref(a[0]) if a else None
        if isinstance(s0, StrV):
            if name in ("len", "is_empty", "as_bytes"): return str_method(name)(I, a, fr, d)
            if name in ("as_str", "clone", "to_string", "to_owned", "into_boxed_str"): return s0
        if isinstance(s0, Opaque) and name in ("len", "is_empty", "as_bytes", "as_str"):
            raise Unmodelled("String::" + name + " of a formatted (uninterpreted) string")
        if name in ("len",): return usize(len(deref(a[0]).cells))
        if name in ("push_str", "push"): return unit()
        return NotImplemented
    return f


def str_method(name):
    def f(I, a, fr, d):
        s = deref(a[0])
        if isinstance(s, StrV):
            if name == "len": return usize(len(s.s.encode()))
            if name == "is_empty": return len(s.s) == 0
            if name == "as_bytes":
                return SliceRef(Seq([Cell(Int("u8", b)) for b in s.s.encode()], "array"), 0, len(s.s.encode()))
        return NotImplemented
    return f


# ------------------------------------------------------------------ foreign / third-party (uninterpreted)
_UF = {}


def uf(name, *sorts):
    k = (name,) + tuple(str(s) for s in sorts)
    if k not in _UF:
        _UF[k] = z3.Function(name, *sorts)
    return _UF[k]


def bytes_term(I, cells):
    """List of u8 Ints -> (length, z3 terms list)"""
    return [c.v.z3() if isinstance(c.v, Int) else c.v for c in cells]


HASH_LOG = "hash_log"


def sha256_model(I, byte_vals):
    """Uninterpreted SHA-256: result is 32 fresh-but-functional bytes: for each distinct input length
    an uninterpreted function of the input bytes (so equal inputs give equal digests)."""
    n = len(byte_vals)
    log = getattr(I, HASH_LOG, None)
    if log is not None: log.append(list(byte_vals))
    out = []
    args = [b.z3() for b in byte_vals]
    for i in range(32):
        if n == 0:
            out.append(mk_int("u8", z3.BitVec(f"sha256_empty_{i}", 8)))
        else:
            fn = uf(f"sha256_{n}_{i}", *([z3.BitVecSort(8)] * n + [z3.BitVecSort(8)]))
            out.append(mk_int("u8", fn(*args)))
    return out


def digest(method):
    st = S()

    def f(I, a, fr, d):
        if method == "new": return Agg("Sha256", [Cell(Seq([], "vec"))])
        if method in ("update", "chain_update"):
            h = deref(a[0])
            data = deref(a[1])
            h.cells[0].v.cells.extend(Cell(clone_val(c.v)) for c in st.as_slice(data).cells())
            return unit() if method == "update" else h
        if method == "finalize":
            h = deref(a[0])
            return Opaque("GenericArray", sha256_model(I, [c.v for c in h.cells[0].v.cells]))
        if method == "digest":
            data = deref(a[0])
            return Opaque("GenericArray", sha256_model(I, [c.v for c in st.as_slice(data).cells()]))
        return NotImplemented
    return f


def ed_verify(I, a, fr, d):
    return foreign_call(I, "ed_verify", a, fr, d)


# ---- uninterpreted models of the secp256k1 / ed25519-dalek wrappers -------------------------------------------------
# Every call is logged in I.crypto_log.  Wrapper model (stated assumptions):
#   A1  recover_ecdsa(m, sign_ecdsa_recoverable(m, sk)) = Ok(pub(sk));  serialize_compact / from_compact are inverse
#   A2  RecoveryId::try_from(i) = Ok  <=>  0 <= i <= 3
#   from_compact / VerifyingKey::from_bytes / recover / verify on other inputs may succeed or fail (both explored)
def _log(I, *rec):
    log = getattr(I, "crypto_log", None)
    if log is not None: log.append(rec)


def _bytes_of(v):
    st = S()
    return [c.v for c in st.as_slice(deref(v)).cells()]


def _fresh_bytes(I, tag, n):
    k = getattr(I, "_fresh_ctr", 0); I._fresh_ctr = k + 1
    return [I.E.sym_int(f"{tag}{k}_{i}", "u8") for i in range(n)]


def _same_terms(a, b):
    return len(a) == len(b) and all((x.concrete and y.concrete and x.v == y.v) or (not x.concrete and not y.concrete and x.v.eq(y.v)) for x, y in zip(a, b))


def _same_bytes(I, a, b):
    """semantic equality of two byte strings under the path condition (forks when both outcomes are feasible)"""
    if len(a) != len(b): return False
    if _same_terms(a, b): return True
    cond = True
    for x, y in zip(a, b):
        cond = b_and(cond, int_binop("Eq", x, y))
    return I.E.branch(cond, "same_bytes")


def foreign_call(I, name, a, fr, d):
    st = S()
    E = I.E
    if name == "msg_from_digest":
        return Opaque("Message", _bytes_of(a[0]))
    if name == "secp_ctx":
        return Opaque("Secp256k1")
    if name == "rid_try_from":
        i = a[0]
        okc = b_and(int_binop("Ge", i, Int(i.ty, 0)), int_binop("Le", i, Int(i.ty, 3)))
        _log(I, "rid_try_from", i)
        if E.branch(okc, "rid"): return st.ok(I, Opaque("RecoveryId", i))
        return st.err(I, Opaque("secp256k1::Error", "InvalidRecoveryId"))
    if name == "rid_to_i32":
        return deref(a[0]).payload
    if name == "sign_recoverable":
        msg, sk = deref(a[1]), deref(a[2])
        sig = Opaque("RecSig", dict(kind="sign", msg=msg.payload, sk=sk, bytes=_fresh_bytes(I, "sigb", 64), rid=E.sym_int(f"rid{getattr(I, '_fresh_ctr', 0)}", "i32")))
        E.assume(b_and(int_binop("Ge", sig.payload["rid"], Int("i32", 0)), int_binop("Le", sig.payload["rid"], Int("i32", 3))))
        I.signed = getattr(I, "signed", []) + [sig]
        _log(I, "sign", msg.payload, sk)
        return sig
    if name == "serialize_compact":
        s = deref(a[0]).payload
        return Agg(None, [Cell(Opaque("RecoveryId", s["rid"])), Cell(Seq([Cell(b) for b in s["bytes"]], "array"))])
    if name == "recsig_from_compact":
        bs, rid = _bytes_of(a[0]), deref(a[1]).payload
        _log(I, "from_compact", bs, rid)
        for s in getattr(I, "signed", []):
            if _same_terms(s.payload["bytes"], bs):
                # same recovery id on every model of this path? (u8 <-> i32 conversions change the term, not the value)
                differs = b_not(int_binop("Eq", int_cast(rid, "i64") if rid.ty != "i64" else rid, int_cast(s.payload["rid"], "i64")))
                if not E.is_sat(differs):
                    return st.ok(I, s)                                  # inverse of serialize_compact (A1)
        if E.choose(2, "from_compact_ok"):
            return st.ok(I, Opaque("RecSig", dict(kind="parsed", bytes=bs, rid=rid)))
        return st.err(I, Opaque("secp256k1::Error", "InvalidSignature"))
    if name == "sig_from_compact":
        bs = _bytes_of(a[0])
        _log(I, "sig_from_compact", bs)
        if E.choose(2, "sig_from_compact_ok"): return st.ok(I, Opaque("CompactSig", bs))
        return st.err(I, Opaque("secp256k1::Error", "InvalidSignature"))
    if name == "recover":
        msg, sig = deref(a[1]), deref(a[2])
        _log(I, "recover", msg.payload, sig.payload)
        p = sig.payload
        if p.get("kind") == "sign" and _same_bytes(I, p["msg"], msg.payload):
            return st.ok(I, Opaque("PublicKey", dict(of=p["sk"])))      # A1
        if E.choose(2, "recover_ok"):
            return st.ok(I, Opaque("PublicKey", dict(of=None, bytes=_fresh_bytes(I, "pkb", 33))))
        return st.err(I, Opaque("secp256k1::Error", "InvalidSignature"))
    if name == "verify_ecdsa":
        _log(I, "verify_ecdsa", deref(a[1]).payload, deref(a[2]).payload, deref(a[3]))
        if E.choose(2, "verify_ok"): return st.ok(I, unit())
        return st.err(I, Opaque("secp256k1::Error", "IncorrectSignature"))
    if name == "pk_serialize":
        pk = deref(a[0])
        if "bytes" not in pk.payload: pk.payload["bytes"] = _fresh_bytes(I, "pkb", 33)
        return Seq([Cell(b) for b in pk.payload["bytes"]], "array")
    if name == "vk_from_bytes":
        bs = _bytes_of(a[0])
        _log(I, "vk_from_bytes", bs)
        if E.choose(2, "vk_ok"): return st.ok(I, Opaque("VerifyingKey", bs))
        return st.err(I, Opaque("ed25519::Error", "key"))
    if name == "edsig_from_bytes":
        return Opaque("EdSignature", _bytes_of(a[0]))
    if name == "ed_verify":
        vk, data, sig = deref(a[0]), _bytes_of(a[1]), deref(a[2])
        _log(I, "ed_verify", vk.payload, data, sig.payload)
        if E.choose(2, "ed_ok"): return st.ok(I, unit())
        return st.err(I, Opaque("ed25519::Error", "verify"))
    return NotImplemented


FOREIGN = [
    (r"Message::from_digest$", "msg_from_digest"),
    (r"Secp256k1<\w+>>::(new|verification_only)$|alloc_only::(new|verification_only)$|Secp256k1::(new|verification_only)", "secp_ctx"),
    (r"RecoverableSignature::serialize_compact$", "serialize_compact"),
    (r"RecoverableSignature::from_compact$", "recsig_from_compact"),
    (r"ecdsa::Signature::from_compact$", "sig_from_compact"),
    (r"sign_ecdsa_recoverable$", "sign_recoverable"),
    (r"recover_ecdsa$", "recover"),
    (r"verify_ecdsa$", "verify_ecdsa"),
    (r"PublicKey::serialize$", "pk_serialize"),
    (r"VerifyingKey::from_bytes$", "vk_from_bytes"),
    (r"Signature::from_bytes$", "edsig_from_bytes"),
]


def foreign(plain, head, last, c):
    for rx, nm in FOREIGN:
        if re.search(rx, plain) or re.search(rx, c):
            return (lambda I, a, fr, d, _n=nm: foreign_call(I, _n, a, fr, d))
    return NotImplemented
