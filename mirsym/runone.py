"""Run one mirsym harness: explore, then replay every distinct counterexample natively."""
import importlib, json, os, re, sys, time

HERE = os.path.dirname(os.path.abspath(__file__))
sys.path.insert(0, HERE)
sys.path.insert(0, os.path.join(HERE, "harness"))
from session import load_program, run_harness


import faulthandler, signal
faulthandler.register(signal.SIGUSR1, all_threads=True)


def main():
    mir_dir, mod, name, tier, seed, outp, jobs, scratch = sys.argv[1:9]
    m = importlib.import_module(mod)
    hd = m.HARNESSES[name]
    P = load_program(mir_dir, hd["crates"])
    fn = hd["fn"]
    params = hd.get("params", {}).get(tier, {})
    s = run_harness(P, lambda I, h: fn(I, h, **params), jobs=int(jobs), seed=int(seed),
                    max_paths=hd.get("max_paths", {}).get(tier, 400000), setup=hd.get("setup"))
    # counterexamples: violations + panics (a panic is never a documented result)
    ces, whats = [], []
    allow_panic = hd.get("allow_panic")
    for v in s["violations"]:
        ces.append(dict(what=v["info"], model=v.get("model"), extra=v.get("extra"), trace=v.get("trace")))
    for p in s["panics"]:
        if allow_panic and allow_panic(p["info"]): continue
        ces.append(dict(what="panic: " + p["info"], model=p.get("model"), trace=p.get("trace")))
    # distinct by `what`
    seen, dist, alts = set(), [], {}
    for c in ces:
        k = c["what"]
        whats.append(k)
        if k in seen:
            # other models of the same violation: tried when the first one cannot be realised / does not reproduce natively
            alts.setdefault(k, []).append(c)
            continue
        seen.add(k); dist.append(c)
    nat = 0
    rp = hd.get("replay")
    for c in dist[:6]:
        if rp is None:
            c["reproduced"] = False; c["replay_note"] = "no native replay defined for this harness"
            continue
        try:
            import nativereplay
            ok, note, payload = nativereplay.replay(scratch, rp, c, params)
            nat += 1
            pool = alts.get(c["what"], [])
            step = max(1, len(pool) // 12)
            for c2 in ([] if ok else pool[::step][:14]):
                ok2, note2, payload2 = nativereplay.replay(scratch, rp, c2, params)
                nat += 1
                if ok2:
                    ok, note, payload = ok2, "[another model of the same violation] " + note2, payload2
                    c["model"], c["trace"], c["extra"] = c2.get("model"), c2.get("trace"), c2.get("extra")
                    break
            c["reproduced"], c["replay_note"], c["replay"] = ok, note, payload
            c["native_runs"] = 1
        except Exception as e:
            c["reproduced"] = False; c["replay_note"] = "replay failed: " + repr(e)
    # prefer a reproduced counterexample first
    dist.sort(key=lambda c: not c.get("reproduced"))
    # native self-check: concrete witnesses of PASSING paths must agree with the real code as well (engine + oracle validation)
    selfcheck = []
    nself = int(os.environ.get("MIRSYM_SELFCHECK", "2" if tier == "quick" else "6"))
    if rp is not None and not dist and nself > 0:
        import nativereplay, random
        cands = list(s.get("ok_witnesses", []))
        random.Random(int(seed)).shuffle(cands)
        seen_kinds = set()
        for c in cands:
            if len(selfcheck) >= nself: break
            if c["what"] in seen_kinds and len(seen_kinds) < len({x["what"] for x in cands}): continue
            seen_kinds.add(c["what"])
            try:
                ok, note, payload = nativereplay.replay(scratch, rp, c, params, profiles=(False,), variants=False)
            except Exception as e:
                continue
            if payload is None: continue
            nat += 1
            if ok and rp.get("differential"):
                # the native run is a differential test of the real code with real keys, independent of the symbolic path:
                # its failure is a reproduced violation, not an engine/oracle disagreement
                what = "native differential of the real code fails: " + re.sub(r"^(dev|release): ", "", note)[:200]
                if not any(x["what"] == what for x in dist):
                    dist.append(dict(what=what, model=c.get("model"), trace=c.get("trace"), reproduced=True, replay_note=note, replay=payload, native_runs=1))
                continue
            selfcheck.append(dict(path=c["what"], disagrees=bool(ok), note=note[:300]))
    wit = hd.get("witnesses", [])
    hit = [w for w in wit if s["outcomes"].get(w, 0) > 0]
    out = dict(paths=s["paths"], queries=s["queries"], solver_s=s["solver_s"], wall_s=s["wall_s"],
               functions=s["functions"], outcomes=s["outcomes"], samples=s["samples"],
               unmodelled=[u["info"] for u in s["unmodelled"]][:5], budget=s["budget"],
               counterexamples=dist, all_whats=sorted(set(whats))[:20], witnesses=len(wit), witnesses_hit=len(hit),
               witnesses_missing=[w for w in wit if w not in hit], native_validations=nat, forks=s["forks"], selfcheck=selfcheck)
    json.dump(out, open(outp, "w"), indent=1, default=str)


if __name__ == "__main__":
    main()
