"""Value domain of the MIR symbolic executor.

Integers are bit-vectors of the exact Rust width; a concrete value is kept as a Python int (fast
path), a symbolic one as a z3 BitVec term.  Booleans are Python bools or z3 Bool terms."""
import z3

INT_BITS = {"u8": 8, "u16": 16, "u32": 32, "u64": 64, "usize": 64, "u128": 128,
            "i8": 8, "i16": 16, "i32": 32, "i64": 64, "isize": 64, "i128": 128, "char": 32}


class Panic(Exception):
    """A Rust panic reached on a feasible path."""


class Infeasible(Exception):
    """Path condition became unsatisfiable (path silently dropped)."""


class Unmodelled(Exception):
    """Construct / callee the executor has no semantics for: the run is inconclusive."""


class Cell:
    __slots__ = ("v",)

    def __init__(self, v=None):
        self.v = v

    def __repr__(self):
        return f"Cell({self.v!r})"


def is_signed(ty):
    return ty[0] == "i"


class Int:
    """Machine integer.  `v` is a Python int in [0, 2^bits) or a z3 BitVec of `bits` bits."""
    __slots__ = ("ty", "v")

    def __init__(self, ty, v):
        self.ty = ty
        if isinstance(v, int):
            v &= (1 << INT_BITS[ty]) - 1
        self.v = v

    @property
    def bits(self):
        return INT_BITS[self.ty]

    @property
    def signed(self):
        return self.ty[0] == "i"

    @property
    def concrete(self):
        return isinstance(self.v, int)

    def z3(self):
        return z3.BitVecVal(self.v, INT_BITS[self.ty]) if isinstance(self.v, int) else self.v

    def sval(self):
        """concrete value interpreted with the type's signedness"""
        b = INT_BITS[self.ty]
        if self.ty[0] == "i" and self.v >> (b - 1):
            return self.v - (1 << b)
        return self.v

    def __repr__(self):
        return f"{self.sval() if isinstance(self.v, int) else self.v}_{self.ty}"


def mk_int(ty, v):
    if not isinstance(v, int):
        v = z3.simplify(v)
        if z3.is_bv_value(v):
            v = v.as_long()
    return Int(ty, v)


# ---- booleans ---------------------------------------------------------------
def b_is_concrete(b):
    return isinstance(b, bool)


def b_z3(b):
    return z3.BoolVal(b) if isinstance(b, bool) else b


def b_norm(b):
    if isinstance(b, bool): return b
    b = z3.simplify(b)
    if z3.is_true(b): return True
    if z3.is_false(b): return False
    return b


def b_not(a):
    return (not a) if isinstance(a, bool) else b_norm(z3.Not(a))


def b_and(a, b):
    if isinstance(a, bool): return b if a else False
    if isinstance(b, bool): return a if b else False
    return b_norm(z3.And(a, b))


def b_or(a, b):
    if isinstance(a, bool): return True if a else b
    if isinstance(b, bool): return True if b else a
    return b_norm(z3.Or(a, b))


def b_eq(a, b):
    if isinstance(a, bool) and isinstance(b, bool): return a == b
    return b_norm(b_z3(a) == b_z3(b))


# ---- integer operations -----------------------------------------------------
def _mask(ty):
    return (1 << INT_BITS[ty]) - 1


def _s(ty, v):
    b = INT_BITS[ty]
    return v - (1 << b) if (ty[0] == "i" and v >> (b - 1)) else v


def int_binop(op, a, b):
    """Wrapping semantics of MIR binops on two Ints of equal type (shifts: rhs any int type)."""
    ty = a.ty
    if a.concrete and b.concrete:
        x, y = a.v, b.v
        if op == "Add": return Int(ty, x + y)
        if op == "Sub": return Int(ty, x - y)
        if op == "Mul": return Int(ty, x * y)
        if op == "BitAnd": return Int(ty, x & y)
        if op == "BitOr": return Int(ty, x | y)
        if op == "BitXor": return Int(ty, x ^ y)
        if op in ("Shl", "ShlUnchecked"): return Int(ty, x << (y % INT_BITS[ty]))
        if op in ("Shr", "ShrUnchecked"):
            sh = y % INT_BITS[ty]
            return Int(ty, (_s(ty, x) >> sh))
        sx, sy = _s(ty, x), _s(b.ty, y)
        if op == "Div":
            if sy == 0: raise Panic("division by zero")
            q = abs(sx) // abs(sy)
            return Int(ty, q if (sx < 0) == (sy < 0) else -q)
        if op == "Rem":
            if sy == 0: raise Panic("remainder by zero")
            r = abs(sx) % abs(sy)
            return Int(ty, -r if sx < 0 else r)
        if op == "Eq": return x == y
        if op == "Ne": return x != y
        if op == "Lt": return sx < sy
        if op == "Le": return sx <= sy
        if op == "Gt": return sx > sy
        if op == "Ge": return sx >= sy
        raise Unmodelled("int binop " + op)
    x, y = a.z3(), b.z3()
    sg = ty[0] == "i"
    if op in ("Shl", "Shr", "ShlUnchecked", "ShrUnchecked"):
        # rhs may have another width: resize, then mask to the bit width of lhs
        if b.bits != a.bits:
            y = z3.Extract(a.bits - 1, 0, y) if b.bits > a.bits else z3.ZeroExt(a.bits - b.bits, y)
        y = y & (a.bits - 1)
        if op.startswith("Shl"): return mk_int(ty, x << y)
        return mk_int(ty, (x >> y) if sg else z3.LShR(x, y))
    if op == "Add": return mk_int(ty, x + y)
    if op == "Sub": return mk_int(ty, x - y)
    if op == "Mul": return mk_int(ty, x * y)
    if op == "BitAnd": return mk_int(ty, x & y)
    if op == "BitOr": return mk_int(ty, x | y)
    if op == "BitXor": return mk_int(ty, x ^ y)
    if op == "Div": return mk_int(ty, (x / y) if sg else z3.UDiv(x, y))
    if op == "Rem": return mk_int(ty, z3.SRem(x, y) if sg else z3.URem(x, y))
    if op == "Eq": return b_norm(x == y)
    if op == "Ne": return b_norm(x != y)
    if op == "Lt": return b_norm((x < y) if sg else z3.ULT(x, y))
    if op == "Le": return b_norm((x <= y) if sg else z3.ULE(x, y))
    if op == "Gt": return b_norm((x > y) if sg else z3.UGT(x, y))
    if op == "Ge": return b_norm((x >= y) if sg else z3.UGE(x, y))
    raise Unmodelled("int binop " + op)


def int_overflow_op(op, a, b):
    """(result, overflowed) for Add/Sub/Mul WithOverflow."""
    ty = a.ty
    bits = INT_BITS[ty]
    sg = ty[0] == "i"
    if a.concrete and b.concrete:
        x, y = _s(ty, a.v), _s(ty, b.v)
        r = x + y if op == "Add" else (x - y if op == "Sub" else x * y)
        lo, hi = (-(1 << (bits - 1)), (1 << (bits - 1)) - 1) if sg else (0, (1 << bits) - 1)
        return Int(ty, r), not (lo <= r <= hi)
    x, y = a.z3(), b.z3()
    if op == "Add":
        ok = z3.And(z3.BVAddNoOverflow(x, y, sg), z3.BVAddNoUnderflow(x, y)) if sg else z3.BVAddNoOverflow(x, y, False)
        return mk_int(ty, x + y), b_norm(z3.Not(ok))
    if op == "Sub":
        ok = z3.And(z3.BVSubNoOverflow(x, y), z3.BVSubNoUnderflow(x, y, True)) if sg else z3.BVSubNoUnderflow(x, y, False)
        return mk_int(ty, x - y), b_norm(z3.Not(ok))
    if op == "Mul":
        ok = z3.And(z3.BVMulNoOverflow(x, y, sg), z3.BVMulNoUnderflow(x, y)) if sg else z3.BVMulNoOverflow(x, y, False)
        return mk_int(ty, x * y), b_norm(z3.Not(ok))
    raise Unmodelled("overflow op " + op)


def int_cast(a, ty):
    """IntToInt cast following Rust `as` semantics."""
    sb, db = a.bits, INT_BITS[ty]
    if a.concrete:
        return Int(ty, _s(a.ty, a.v))
    x = a.v
    if db < sb: return mk_int(ty, z3.Extract(db - 1, 0, x))
    if db > sb: return mk_int(ty, z3.SignExt(db - sb, x) if a.signed else z3.ZeroExt(db - sb, x))
    return Int(ty, x)


def int_eq(a, b):
    return int_binop("Eq", a, b)


def int_fits(a, ty):
    """Bool: value of `a` (with its signedness) is representable in `ty` (TryFrom semantics)."""
    bits = INT_BITS[ty]
    lo, hi = (-(1 << (bits - 1)), (1 << (bits - 1)) - 1) if ty[0] == "i" else (0, (1 << bits) - 1)
    if a.concrete:
        return lo <= a.sval() <= hi
    x = a.v
    conds = []
    if a.signed:
        w = a.bits
        if lo > -(1 << (w - 1)): conds.append(x >= z3.BitVecVal(lo, w))
        if hi < (1 << (w - 1)) - 1: conds.append(x <= z3.BitVecVal(hi, w))
    else:
        w = a.bits
        if hi < (1 << w) - 1: conds.append(z3.ULE(x, z3.BitVecVal(hi, w)))
    if not conds: return True
    return b_norm(z3.And(*conds))


# ---- aggregates --------------------------------------------------------------
class Agg:
    """struct / tuple / tuple-struct value"""
    __slots__ = ("name", "cells")

    def __init__(self, name, cells):
        self.name, self.cells = name, cells

    def __repr__(self):
        return f"{self.name or ''}({', '.join(repr(c.v) for c in self.cells)})"


class EnumV:
    __slots__ = ("d", "variant", "cells")

    def __init__(self, d, variant, cells=()):
        self.d, self.variant, self.cells = d, variant, list(cells)

    def __repr__(self):
        return f"{self.d.name}::{self.variant}({', '.join(repr(c.v) for c in self.cells)})"


class Seq:
    """storage of an array or Vec (kind = 'array' | 'vec' | 'string')"""
    __slots__ = ("cells", "kind")

    def __init__(self, cells, kind="vec"):
        self.cells, self.kind = cells, kind

    def __repr__(self):
        return f"{self.kind}[{', '.join(repr(c.v) for c in self.cells)}]"


class Ref:
    __slots__ = ("cell",)

    def __init__(self, cell):
        self.cell = cell

    def __repr__(self):
        return f"&{self.cell.v!r}"


class SliceRef:
    """&[T] / &mut [T] view into a Seq"""
    __slots__ = ("seq", "lo", "hi")

    def __init__(self, seq, lo, hi):
        self.seq, self.lo, self.hi = seq, lo, hi

    def cells(self):
        return self.seq.cells[self.lo:self.hi]

    def __len__(self):
        return self.hi - self.lo

    def __repr__(self):
        return f"&[{', '.join(repr(c.v) for c in self.cells())}]"


class StrV:
    __slots__ = ("s",)

    def __init__(self, s):
        self.s = s

    def __repr__(self):
        return f"str({self.s!r})"


class Ptr:
    """Box / Arc / Rc (transparent owning pointer); `rc` counts strong refs for Arc/Rc."""
    __slots__ = ("cell", "kind", "rc")

    def __init__(self, cell, kind, rc=None):
        self.cell, self.kind, self.rc = cell, kind, rc if rc is not None else Cell(1)

    def __repr__(self):
        return f"{self.kind}({self.cell.v!r})"


class Closure:
    __slots__ = ("fn", "cells")

    def __init__(self, fn, cells):
        self.fn, self.cells = fn, cells

    def __repr__(self):
        return f"<closure {self.fn.name}>"


class FnRef:
    __slots__ = ("path", "crate")

    def __init__(self, path, crate):
        self.path, self.crate = path, crate

    def __repr__(self):
        return f"<fn {self.path}>"


class PyFn:
    """harness-provided callable usable wherever a closure / fn item is expected"""
    __slots__ = ("f", "name")

    def __init__(self, f, name="pyfn"):
        self.f, self.name = f, name


class MapV:
    """BTreeMap / HashMap as association list; kind = 'btree' | 'hash'"""
    __slots__ = ("kind", "items")

    def __init__(self, kind):
        self.kind, self.items = kind, []      # [(key value, Cell)]


class SetV:
    __slots__ = ("kind", "items")

    def __init__(self, kind):
        self.kind, self.items = kind, []      # [key value]


class Iter:
    __slots__ = ("kind", "d")

    def __init__(self, kind, **kw):
        self.kind, self.d = kind, kw

    def __getattr__(self, k):
        try:
            return self.d[k]
        except KeyError:
            raise AttributeError(k)


class Opaque:
    """uninterpreted value (third-party / foreign results); `term` may hold a z3 term"""
    __slots__ = ("tag", "payload")

    def __init__(self, tag, payload=None):
        self.tag, self.payload = tag, payload

    def __repr__(self):
        return f"<opaque {self.tag} {self.payload!r}>"


UNIT = None   # set below


def unit():
    return Agg(None, [])


def clone_val(v):
    """By-value copy (MIR `copy` of a Copy type / Clone of plain data).  References stay shared."""
    if isinstance(v, (Int, bool, StrV, Ref, SliceRef, FnRef, PyFn, Opaque)) or v is None or z3.is_expr(v):
        return v
    if isinstance(v, Agg): return Agg(v.name, [Cell(clone_val(c.v)) for c in v.cells])
    if isinstance(v, EnumV): return EnumV(v.d, v.variant, [Cell(clone_val(c.v)) for c in v.cells])
    if isinstance(v, Seq): return Seq([Cell(clone_val(c.v)) for c in v.cells], v.kind)
    if isinstance(v, Closure): return Closure(v.fn, [Cell(clone_val(c.v)) for c in v.cells])
    if isinstance(v, Ptr):
        if v.kind in ("arc", "rc"):
            return v
        return Ptr(Cell(clone_val(v.cell.v)), v.kind)
    if isinstance(v, MapV):
        m = MapV(v.kind); m.items = [(clone_val(k), Cell(clone_val(c.v))) for k, c in v.items]; return m
    if isinstance(v, SetV):
        s = SetV(v.kind); s.items = [clone_val(k) for k in v.items]; return s
    if isinstance(v, Iter):
        return Iter(v.kind, **{k: (clone_val(x) if not isinstance(x, (int, str)) else x) for k, x in v.d.items()})
    return v
