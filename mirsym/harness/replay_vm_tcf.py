from replay_common import *


def prepare(rp, ce, params):
    m = ce.get("model") or {}
    opn = ["JumpIf", "HaltIf", "PanicIf", "Halt"][trace_val(ce, "op", 0)]
    S = seq(m, "s")
    pc = min(m.get("pc", 0), 3)        # the real program can only place the op at a small index
    fields = dict(kind="vm_op", op="TotalControlFlow::" + opn, stack=" ".join(map(str, S)), memory="", pc=str(pc),
                  fill="halt", tail="8")

    def ref():
        """(ok, next_pc or None, halted, stack)"""
        if opn == "Halt": return True, pc, True, S
        need = 2 if opn == "JumpIf" else 1
        if len(S) < need: return (False,)
        c = S[-1]
        if c not in (0, 1): return (False,)
        if opn == "HaltIf": return True, (pc if c == 1 else pc + 1), c == 1, S[:-1]
        if opn == "PanicIf": return (False,) if c == 1 else (True, pc + 1, False, S[:-1])
        d = S[-2]
        if c == 0: return True, pc + 1, False, S[:-2]
        if d == 0 or pc + d < 0 or pc + d > 2**64 - 1: return (False,)
        # landing on one of the Halt fillers (or beyond the program) ends the run at the target
        return True, pc + d, False, S[:-2]

    def judge(out):
        if "panic" in out: return True, "real code panics: " + out["panic"][:200]
        if "skipped" in out: return False, out["skipped"]
        r = ref()
        if out.get("result") == "err":
            if out.get("err_index") != str(pc): return True, "error reported at another index than the failing op: " + str(out)[:150]
            return bool(r[0]), f"real: error ({out.get('err','')[:80]}); reference: {'ok' if r[0] else 'error'}"
        if not r[0]: return True, "real code succeeds where the specification requires an error"
        st = [int(x) for x in out.get("stack", "").split()]
        # after a jump the (single-op) program ends: only the new pc is observable
        bad = st != r[3]
        # not halted at the op itself: execution continues at r[1]; a Halt filler (or the program end) stops it there
        if not r[2] and int(out.get("pc", -1)) != r[1] and r[1] <= pc + 9: bad = True
        return bad, f"real pc={out.get('pc')} stack={st}; reference pc={r[1]} stack={r[3]}"
    return fields, judge


def variants(rp, ce, params):
    """the same stack at the next program positions (a wrong backward jump from pc 0 re-executes the op itself)"""
    m = dict(ce.get("model") or {})
    for d in (1, 2, 3):
        if m.get("pc", 0) + d <= 3:
            yield f"pc+{d}", dict(ce, model=dict(m, pc=m.get("pc", 0) + d))
