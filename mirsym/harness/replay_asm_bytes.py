from replay_common import *
import h_asm


def dbg(o, imm=None):
    return f"{o['group']}({o['name']}({imm}))" if o["num_arg_bytes"] else f"{o['group']}({o['name']})"


def ref_parse(sp, bs):
    items, i = [], 0
    while i < len(bs):
        o = sp["by_code"].get(bs[i])
        if o is None: items.append("ERR:InvalidOpcode"); return items, i
        if o["num_arg_bytes"]:
            if i + 9 > len(bs): items.append("ERR:NotEnoughBytes"); return items, i
            imm = sw(int.from_bytes(bytes(bs[i + 1:i + 9]), "big"))
            items.append(dbg(o, imm)); i += 9
        else:
            items.append(dbg(o)); i += 1
    return items, i


def stream_bytes(ce, m):
    """rebuild the concrete byte stream of h_asm.gen_stream from trace + model"""
    bs, k = [], 0
    R = h_asm.REPR
    tr = {t.split("=")[0]: int(t.split("=")[1]) for t in (ce.get("trace") or []) if "=" in t and t.startswith("op")}
    while f"op{k}" in tr:
        c = tr[f"op{k}"]
        if c == 0: break
        if f"op{k + 1}" not in tr and c + 1 + len(R) <= 4 + len(R) and k >= 3: c += 1 + len(R)
        if c == 1: bs += [1] + [m.get(f"i{k}_{j}", 0) & 255 for j in range(8)]
        elif c < 2 + len(R): bs.append(R[c - 2])
        elif c == 2 + len(R): bs.append(m.get(f"bad{k}", 0) & 255); break
        else:
            t = 0 if c == 3 + len(R) else 7
            bs += [1] + [m.get(f"t{k}_{j}", 0) & 255 for j in range(t)]; break
        k += 1
    return bs


def prepare(rp, ce, params):
    m = ce.get("model") or {}
    sp = h_asm.spec()
    fn = rp["fn"]
    if fn == "opcode":
        b = m.get("b", 0) & 255
        fields = dict(kind="asm_bytes", fn="opcode", byte=str(b))

        def judge(out):
            if "panic" in out: return True, "panics: " + out["panic"][:150]
            o = sp["by_code"].get(b)
            pn = sp["pinned"].get(b)
            if pn is not None and (out.get("result") != "ok" or out.get("opcode") != f"{pn['group']}({pn['name']})"):
                return True, f"pinned opcode table: {b:#x} = {pn['group']}::{pn['name']}; real: {out}"
            if o is None: return out.get("result") != "err", f"byte {b:#x} not in asm.yml; real: {out}"
            bad = out.get("result") != "ok" or out.get("opcode") != f"{o['group']}({o['name']})" or out.get("byte") != str(b)
            return bad, f"asm.yml: {o['group']}::{o['name']}; real: {out}"
        return fields, judge
    if fn in ("parse_one", "from_bytes", "effects_bytes"):
        bs = seq(m, "b", 8, False) if fn == "parse_one" else stream_bytes(ce, m)
        if fn == "effects_bytes":
            eff = m.get("effects", 0) & 63
            fields = dict(kind="asm_bytes", fn=fn, bytes=" ".join(map(str, bs)), effects=str(eff))

            def judge_e(out):
                if "panic" in out: return True, "panics: " + out["panic"][:150]
                items, _ = ref_parse(sp, bs)
                bits = {"StateRead(KeyRange)": 1, "StateRead(KeyRangeExtern)": 2, "Access(ThisAddress)": 4,
                        "Access(ThisContractAddress)": 8, "StateRead(PostKeyRange)": 16, "StateRead(PostKeyRangeExtern)": 32}
                want = any(bits.get(it, 0) & eff for it in items)
                return out.get("value") != str(want).lower(), f"reference {want}, real {out.get('value')} for bytes {bs} effects {eff}"
            return fields, judge_e
        fields = dict(kind="asm_bytes", fn="from_bytes", bytes=" ".join(map(str, bs)))

        def judge_p(out):
            if "panic" in out: return True, "panics: " + out["panic"][:150]
            items, used = ref_parse(sp, bs)
            if fn == "parse_one": items = items[:1]
            got = [x.split("(")[0] + "(" + x.split("(", 1)[1] if not x.startswith("ERR") else "ERR:" + x[4:].split("(")[0] for x in out.get("items", "").split(";") if x]
            if fn == "parse_one": got = got[:1]
            if got != items: return True, f"reference parse {items}, real {got}"
            if not any(x.startswith("ERR") for x in items) and fn != "parse_one":
                if out.get("reencoded", "") != " ".join(map(str, bs)): return True, "to_bytes(from_bytes(b)) != b natively"
            return False, "real parse equals the reference"
        return fields, judge_p
    if fn == "roundtrip":
        o = sp["ops"][trace_val(ce, "op", 0)]
        imm = sw(m.get("imm", 0))
        fields = dict(kind="asm_bytes", fn="roundtrip", op=f"{o['group']}::{o['name']}", imm=str(imm))

        def judge_r(out):
            if "panic" in out: return True, "panics: " + out["panic"][:150]
            want = [o["opcode"]] + (list((imm & (2**64 - 1)).to_bytes(8, "big")) if o["num_arg_bytes"] else [])
            if out.get("bytes") != " ".join(map(str, want)): return True, f"real bytes {out.get('bytes')} != spec {want}"
            if out.get("back") != f"[Ok({out.get('op')})]": return True, f"real round trip {out.get('back')}"
            return False, "round trip ok"
        return fields, judge_r
    if fn == "analyze_all":
        left = list(h_asm.EFFECT_OF.items()); ops = []; want = 0; k = 0
        while left:
            c = trace_val(ce, f"pick{k}", 0); k += 1
            if c == 0: break
            (g, nm), bit = left.pop(c - 1)
            ops.append(f"{g}::{nm}:0"); want |= bit
        fields = dict(kind="asm_bytes", fn="analyze", ops=";".join(ops))
        return fields, (lambda out: (True, "panics") if "panic" in out else (out.get("bits") != str(want), f"analyze({ops}) = {out.get('bits')}, union = {want}"))
    if fn == "analyze":
        classes = list(h_asm.EFFECT_OF.items()) + [(("Stack", "Push"), 0), (("Alu", "Add"), 0)]
        n = trace_val(ce, "n_ops", 0)
        ops, want = [], 0
        for i in range(n):
            (g, nm), bit = classes[trace_val(ce, f"op{i}", 0)]
            ops.append(f"{g}::{nm}:{sw(m.get(f'imm{i}', 0))}"); want |= bit
        fields = dict(kind="asm_bytes", fn="analyze", ops=";".join(ops))

        def judge_a(out):
            if "panic" in out: return True, "panics: " + out["panic"][:150]
            return out.get("bits") != str(want), f"analyze({ops}) = {out.get('bits')}, union of per-op effects = {want}"
        return fields, judge_a
    return None, "no replay"
