"""C10 / C07 / C05: compute::compute (fork/join) from MIR.  Children are the real Vm::exec on concrete body
shapes; the reference runs each child separately from the DOCUMENTED initial state (again with the real
Vm::exec, whose semantics is the subject of C07-C09) and applies the documented join."""
import re
import z3
from session import *      # noqa
from h_vmops import AND, OR, NOT, W, ge0, eqc, words_eq
from h_vmctl import setup_exec, mk_vm, sym_repeat

USZ = "usize"


def OP(h, grp, name, *f):
    return h.enum("asm", "op::Op", grp, h.enum("asm", f"op::{grp}", name, *f))


def shapes(h):
    """program = [.., COM at index 1, body.., COME, tail]; index 0 is never executed (parent pc = 1)"""
    com, come = OP(h, "Compute", "Compute"), OP(h, "Compute", "ComputeEnd")
    pop, push = OP(h, "Stack", "Pop"), (lambda w: OP(h, "Stack", "Push", W(w)))
    return {
        # child i allocates i words, stores nothing: memories of different sizes, joined in index order
        "alloc_index": [pop, com, OP(h, "Memory", "Alloc"), OP(h, "Stack", "Pop"), come, pop],
        # child i allocates 2-i words and writes i+7 into its word 0: shrinking memories with distinguishable content
        "alloc_shrink": [pop, com, OP(h, "Stack", "Dup"), push(2), OP(h, "Stack", "Swap"), OP(h, "Alu", "Sub"), OP(h, "Memory", "Alloc"),
                         OP(h, "Stack", "Pop"), push(7), OP(h, "Alu", "Add"), push(0), OP(h, "Memory", "Store"), come],
        # children read the counter of the repeat scope the Compute sits in: they start with a copy of the parent's repeat stack
        "repeat_counter": [pop, com, OP(h, "Access", "RepeatCounter"), OP(h, "Stack", "Pop"), come],
        # child i: writes its index into its own memory word 0, reads parent memory word 0 on top
        "store_index": [pop, com, push(1), OP(h, "Memory", "Alloc"), OP(h, "Stack", "Pop"), push(0), OP(h, "Memory", "Store"),
                        push(0), OP(h, "ParentMemory", "Load"), OP(h, "Stack", "Pop"), come],
        # index used as HaltIf condition: child 0 continues, child 1 halts, child >= 2 fails
        "halt_if_index": [pop, com, OP(h, "TotalControlFlow", "HaltIf"), push(1), OP(h, "Memory", "Alloc"), come],
        # children run off the end of the program (no ComputeEnd)
        "no_end": [pop, com, OP(h, "Stack", "Pop")],
        # nested compute: must fail (depth limit 1)
        "nested": [pop, com, push(1), com, come, come],
        # different final pcs: child 1 jumps forward past ComputeEnd
        "jump_past": [pop, com, push(3), OP(h, "Stack", "Swap"), OP(h, "TotalControlFlow", "JumpIf"), come, push(7), OP(h, "Stack", "Pop")],
        # only child 0 jumps past ComputeEnd: the furthest child is not the last one
        "jump_first": [pop, com, push(0), OP(h, "Pred", "Eq"), push(3), OP(h, "Stack", "Swap"), OP(h, "TotalControlFlow", "JumpIf"), come, push(7), OP(h, "Stack", "Pop")],
    }


def compute(I, h, bmax=2, ns=2, nm=2):
    E = I.E
    setup_exec(I)
    prog_name = sorted(shapes(h))[E.choose(len(shapes(h)), "shape")]
    ops = h.vec(shapes(h)[prog_name])
    nops = len(ops.cells)
    breadth = E.sym_int("breadth", "i64")
    E.assume(int_binop("Le", breadth, W(bmax)))
    E.assume(int_binop("Ge", breadth, W(-1)))
    slen = E.choose(ns + 1, "slen"); mlen = E.choose(nm + 1, "mlen")
    below, Mw = h.words("s", slen), h.words("m", mlen)
    st, mem = h.stack(list(below) + [breadth]), h.memory(list(Mw))
    depth = E.choose(2, "depth")
    pmem = h.vec([Ptr(Cell(h.memory([W(55)])), "arc")] if depth else [])
    rep, repm = sym_repeat(I, h, E.choose(2, "rep_depth"))
    cost = E.sym_int("cost", "u64")
    E.assume(int_binop("Le", cost, Int("u64", 1000)))
    limit = E.sym_int("limit", "u64")
    costf = PyFn(lambda I_, o: cost, "cost")
    access = Agg("Access", [Cell(Ptr(Cell(h.vec([])), "arc")), Cell(Int(USZ, 0))])
    cache = Ptr(Cell(Agg("LazyCache", [Cell(Agg("OnceLock", [Cell(h.none())]))])), "arc")
    gl = Agg("GasLimit", [Cell(Int("u64", 4096)), Cell(limit)])
    halt0 = bool(E.choose(2, "halt0"))
    inputs = Agg("ComputeInputs", [Cell(Int(USZ, 1)), Cell(h.ref(st)), Cell(h.ref(mem)), Cell(pmem), Cell(halt0), Cell(h.ref(rep)),
                                   Cell(cache), Cell(access), Cell(h.ref(Agg("State", []))), Cell(SliceRef(ops, 0, nops)),
                                   Cell(h.ref(costf)), Cell(gl)])
    r = h.call("vm", "compute::compute", [inputs])
    b = E.concretize(breadth, cap=bmax + 4, label="breadth")
    b = Int("i64", b).sval()
    gx = dict(shape=prog_name, breadth=b)
    if b < 1 or depth >= 1:
        if r.variant == "Ok": raise Violation("Compute succeeds with breadth < 1 or inside a compute program", E.model_for(), gx)
        return "err-args"
    # ---- reference: children one after another from the documented initial state
    results, child_err = [], False
    for i in range(b):
        cvm = mk_vm(h, Int(USZ, 2), list(below) + [W(i)], [])
        cvm.cells[3].v = h.vec([Ptr(Cell(h.memory(list(Mw))), "arc")])
        cvm.cells[5].v = clone_val(Agg("Repeat", [Cell(h.vec([clone_val(c.v) for c in _orig_slots(h, repm)]))]))
        cr = h.call("vm", "vm::Vm::exec", [h.ref(cvm), access, h.ref(Agg("State", [])), SliceRef(ops, 0, nops), h.ref(costf), gl])
        if cr.variant == "Err":
            child_err = True
            break
        results.append((cr.cells[0].v, cvm.cells[0].v, [c.v for c in cvm.cells[2].v.cells[0].v.cells], cvm.cells[4].v))
    if child_err:
        if r.variant == "Ok": raise Violation("a child program fails but Compute succeeds", E.model_for(), gx)
        return "err-child"
    joined = list(Mw)
    for g, cpc, cm, chalt in results: joined += cm
    if len(joined) > 10240:
        if r.variant == "Ok": raise Violation("joined memory above the limit accepted", E.model_for(), gx)
        return "err-mem"
    # gas: sum of the children, must not overflow
    tot, nowrap = z3.BitVecVal(0, 64), True
    for g, _, _, _ in results:
        nowrap = AND(nowrap, b_norm(z3.BVAddNoOverflow(tot, g.z3(), False)))
        tot = tot + g.z3()
    if r.variant != "Ok":
        check(E, nowrap, "Compute fails although every child succeeds, memory fits and the gas sum does not overflow", gx)
        return "err-gas"
    check(E, NOT(nowrap), "Compute succeeds although the children's gas does not fit into u64", gx)
    t = r.cells[0].v
    rpc, rgas, rhalt = t.cells[0].v, t.cells[1].v, t.cells[2].v
    want_pc = 1
    for _, cpc, _, _ in results:
        want_pc = max(want_pc, cpc.v)
    if rpc.v != want_pc: raise Violation(f"parent resumes at {rpc.v}, furthest child position is {want_pc}", E.model_for(), gx)
    check(E, b_norm(rgas.z3() != tot), "gas returned by Compute is not the sum of the children's gas", gx)
    want_halt = halt0 or any(x[3] is True for x in results)
    if rhalt is not want_halt and isinstance(rhalt, bool): raise Violation("halt flag is not the disjunction of parent and children", E.model_for(), gx)
    words_eq(E, mem.cells[0].v.cells, joined, "parent memory after join")
    words_eq(E, st.cells[0].v.cells, list(below), "parent stack after join")
    return "ok"


def _orig_slots(h, repm):
    from h_vmctl import mk_slot
    return [Cell(mk_slot(h, c, up, l, ix)) for (c, up, l, ix) in repm]


CR = ["types", "asm", "vm"]
HARNESSES = {
    "compute": dict(props=["C10", "C07", "C05"], crates=CR, fn=compute,
        params=dict(quick=dict(bmax=2, ns=1, nm=1), thorough=dict(bmax=3, ns=2, nm=2)),
        witnesses=["ok", "err-args", "err-child"],
        bound=dict(quick="breadth -1..2 (symbolic), 9 child-body shapes (reading the enclosing repeat counter / index-dependent growing and shrinking alloc / store + parent-memory read / HaltIf on the index / no ComputeEnd / nested Compute / last or first child jumping past ComputeEnd), parent stack <=1 + breadth, memory <=1 symbolic words, repeat stack <=1 symbolic slot, depth 0/1, any gas limit, per-op cost <=1000",
                   thorough="breadth up to 3, stack/memory <=2"),
        replay=dict(kind="vm_compute")),
}
