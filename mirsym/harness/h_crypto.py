"""C12 (VerifyEd25519 / RecoverSecp256k1 marshalling) and C19 (signature plumbing) from MIR, with the secp256k1 / ed25519
wrappers uninterpreted (colls.foreign_call: axioms A1, A2)."""
import z3
from session import *      # noqa
from h_vmops import AND, OR, NOT, W, ge0, eqc, words_eq
from h_types import ints_eq, seq_vals
from h_vmio import word_bytes, be_words_of_bytes

I64 = "i64"


def verify_ed25519_op(I, h, nwords=2):
    """[data.., byte_len, sig(8), key(4)] -> [valid]: the verifier receives the big-endian images of exactly those words"""
    E = I.E
    I.crypto_log = []
    nb, nd = E.choose(2, "below"), E.choose(nwords + 1, "data_words")
    below, data = h.words("b", nb), h.words("d", nd)
    bl = E.sym_int("byte_len", I64)
    sig, key = h.words("sig", 8), h.words("key", 4)
    short = E.choose(2, "short")
    S = below + data + [bl] + sig + key
    if short: S = S[1:]
    st = h.stack(list(S))
    r = h.call("vm", "step_op_crypto", [h.enum("asm", "op::Crypto", "VerifyEd25519"), h.ref(st)])
    avail = len(S) - 13
    if avail < 0:
        if r.variant == "Ok": raise Violation("Ok with missing operand words", E.model_for())
        return "err"
    valid = AND(ge0(bl), int_binop("Le", bl, W(8 * avail)))
    calls = {c[0]: c for c in I.crypto_log}
    if "ed_verify" not in calls:
        if r.variant == "Ok": raise Violation("Ok without calling the verifier", E.model_for())
        if "vk_from_bytes" not in calls: check(E, valid, "rejected before key parsing although the data is complete")
        return "err"
    check(E, NOT(valid), "verifier called although byte_len exceeds the data")
    n = E.concretize(bl, cap=8 * avail + 2, label="byte_len")
    k = (n + 7) // 8
    allw = S[:avail]
    src = allw[len(allw) - k:]
    want = []
    for w in src: want += word_bytes(w)
    _, vk, dat, sg = calls["ed_verify"]
    kb = []
    for w in key: kb += word_bytes(w)
    sb = []
    for w in sig: sb += word_bytes(w)
    ints_eq(E, vk, kb, "public key bytes given to the verifier")
    ints_eq(E, sg, sb, "signature bytes given to the verifier")
    ints_eq(E, dat, want[:n], "message bytes given to the verifier")
    if r.variant != "Ok": raise Violation("op fails although the verifier was called", E.model_for())
    okv = any(t.startswith("ed_ok=1") for t in E.choices)
    words_eq(E, st.cells[0].v.cells, allw[:len(allw) - k] + [W(1 if okv else 0)], "stack")
    return "verified" if okv else "rejected"


def recover_secp_op(I, h):
    """[hash(4), sig(8), rec_id] -> 5 public-key words, or five zeros when recovery fails"""
    E = I.E
    I.crypto_log = []
    below = h.words("b", E.choose(2, "below"))
    hw, sg = h.words("hash", 4), h.words("sig", 8)
    rid = E.sym_int("rid", I64)
    st = h.stack(list(below) + hw + sg + [rid])
    r = h.call("vm", "step_op_crypto", [h.enum("asm", "op::Crypto", "RecoverSecp256k1"), h.ref(st)])
    rid_ok = AND(ge0(rid), int_binop("Le", rid, W(3)))
    calls = {c[0]: c for c in I.crypto_log}
    if r.variant != "Ok":
        if "recover" in calls: raise Violation("error although recovery was attempted (should push zeros)", E.model_for())
        if "from_compact" not in calls: check(E, rid_ok, "valid recovery id rejected")
        return "err"
    check(E, NOT(rid_ok), "recovery id outside 0..3 accepted")
    hb, sb = [], []
    for w in hw: hb += word_bytes(w)
    for w in sg: sb += word_bytes(w)
    ints_eq(E, calls["from_compact"][1], sb, "signature bytes parsed")
    check(E, b_not(int_binop("Eq", calls["from_compact"][2], mk_int("i32", z3.Extract(31, 0, rid.z3())))), "recovery id parsed")
    ints_eq(E, calls["recover"][1], hb, "digest given to recovery")
    out = st.cells[0].v.cells
    if any(t.startswith("recover_ok=1") for t in E.choices):
        pk = [x for x in I.E.names if x.startswith("pkb")]
        pkb = [Int("u8", 0)] * 0
        # the 33 serialized bytes: 4 big-endian words + the last byte in the low byte of a 5th word
        ser = [I.E.sym_int(n, "u8") for n in sorted((x for x in I.E.names if x.startswith("pkb")), key=lambda s: int(s.split("_")[-1]))]
        want = be_words_of_bytes(ser[:32]) + [mk_int(I64, z3.ZeroExt(56, ser[32].z3()))]
        words_eq(E, out, list(below) + want, "stack (public key words)")
        return "recovered"
    words_eq(E, out, list(below) + [W(0)] * 5, "stack (five zeros)")
    return "unrecoverable"


# ------------------------------------------------------------------ C19
def _pred(h, E, tag):
    node = Agg("Node", [Cell(E.sym_int(f"{tag}_es", "u16")),
                        Cell(Agg("ContentAddress", [Cell(h.vec([E.sym_int(f"{tag}_a0", "u8")] + [Int("u8", 0)] * 31, "array"))]))])
    return Agg("Predicate", [Cell(h.vec([node])), Cell(h.vec([E.sym_int(f"{tag}_e0", "u16")]))])


def contract_sign_recover(I, h, npmax=2):
    """sign(contract, sk) then recover / verify: same digest on both sides (the contract's content address), signature bytes and
    recovery id survive the Signature([u8;64], u8) representation, so recovery returns pub(sk) by A1; verify = recover.is_ok.
    With two predicates the signed contract is presented to recover with its predicates in the other order."""
    E = I.E
    I.crypto_log = []
    I.hash_log = []
    np_ = E.choose(npmax + 1, "npred")
    salt = [E.sym_int(f"salt_{i}", "u8") for i in range(2)] + [Int("u8", 0)] * 30
    preds = [_pred(h, E, f"p{i}") for i in range(np_)]
    contract = Agg("Contract", [Cell(h.vec([clone_val(p) for p in preds])), Cell(h.vec(list(salt), "array"))])
    sk = Opaque("SecretKey", "sk")
    signed = h.call("sign", "contract::sign", [contract, h.ref(sk)])
    d_sign = [c for c in I.crypto_log if c[0] == "sign"][0][1]
    if np_ >= 2:
        # the verifier sees the same contract with its predicates listed in reverse order
        pv = signed.cells[0].v.cells[0].v
        vals = [c.v for c in pv.cells][::-1]
        for c, v in zip(pv.cells, vals): c.v = v
    rec = h.call("sign", "contract::recover", [h.ref(signed)])
    if rec.variant != "Ok": raise Violation("recover fails on a freshly signed contract", E.model_for())
    d_rec = [c for c in I.crypto_log if c[0] == "recover"][0][1]
    ints_eq(E, d_rec, d_sign, "digest recovered against != digest signed (" + ("predicates reordered" if np_ >= 2 else "same contract") + ")")
    if rec.cells[0].v.payload.get("of") is not sk: raise Violation("recover does not return the signer's key", E.model_for())
    ver = h.call("sign", "contract::verify", [h.ref(signed)])
    if ver.variant != "Ok": raise Violation("verify fails on a freshly signed contract", E.model_for())
    # the digest is the contract's content address
    ca = h.call("hash", "<Contract as Address>::content_address", [h.ref(signed.cells[0].v)])
    ints_eq(E, d_sign, seq_vals(ca.cells[0].v), "signed digest is not the contract's content address")
    # every predicate (its full encoding) and the salt reach a hash input
    return "ok" if np_ < 2 else "ok-reordered"


def recover_malformed(I, h):
    """recover_from_message on any 64 signature bytes and any recovery-id byte: Ok or Err, never a panic; id > 3 is an error"""
    E = I.E
    I.crypto_log = []
    sb = [E.sym_int(f"s{i}", "u8") for i in range(64)]
    idb = E.sym_int("id", "u8")
    sig = Agg("Signature", [Cell(h.vec(list(sb), "array")), Cell(idb)])
    msg = Opaque("Message", [E.sym_int(f"m{i}", "u8") for i in range(32)])
    r = h.call("sign", "recover_from_message", [h.ref(msg), h.ref(sig)])
    big = int_binop("Gt", idb, Int("u8", 3))
    if r.variant == "Ok":
        check(E, big, "recovery id above 3 accepted")
        c = [x for x in I.crypto_log if x[0] == "from_compact"][0]
        ints_eq(E, c[1], sb, "signature bytes given to the parser")
        return "ok"
    return "err"


def encodings(I, h):
    """encode::public_key / signature: 33 / 64+id bytes -> words is position-wise (hence injective) and is the layout the VM's
    RecoverSecp256k1 pushes / pops"""
    E = I.E
    pk = Opaque("PublicKey", dict(of=None))
    ws = seq_vals(h.call("sign", "encode::public_key", [h.ref(pk)]))
    ser = pk.payload["bytes"]
    words_eq(E, [Cell(w) for w in ws], be_words_of_bytes(ser[:32]) + [mk_int(I64, z3.ZeroExt(56, ser[32].z3()))], "public key words")
    bs = seq_vals(h.call("sign", "encode::public_key_as_bytes", [h.ref(pk)]))
    exp = []
    for w in ws: exp += word_bytes(w)
    ints_eq(E, bs, exp, "public_key_as_bytes")
    sig = Opaque("RecSig", dict(kind="parsed", bytes=[E.sym_int(f"sb{i}", "u8") for i in range(64)], rid=E.sym_int("rid", "i32")))
    sw_ = seq_vals(h.call("sign", "encode::signature", [h.ref(sig)]))
    words_eq(E, [Cell(w) for w in sw_], be_words_of_bytes(sig.payload["bytes"]) + [mk_int(I64, z3.SignExt(32, sig.payload["rid"].z3()))], "signature words")
    return "ok"


CRV = ["types", "asm", "vm"]
CRS = ["types", "hash", "sign"]
HARNESSES = {
    "verify_ed25519_op": dict(props=["C12", "C05"], crates=CRV, fn=verify_ed25519_op, params=dict(quick=dict(nwords=2), thorough=dict(nwords=3)),
        witnesses=["verified", "rejected", "err"],
        bound=dict(quick="0..2 data words, byte_len any i64, symbolic signature / key words; ed25519-dalek uninterpreted (key parsing and verification may fail or succeed)", thorough="0..3 data words"),
        replay=dict(kind="crypto_roundtrip", differential=True)),
    "recover_secp_op": dict(props=["C12", "C19", "C05"], crates=CRV, fn=recover_secp_op, witnesses=["recovered", "unrecoverable", "err"],
        bound_text="any hash / signature words, recovery id any i64; secp256k1 wrapper uninterpreted (A2: id valid iff 0..3; parsing and recovery may fail)",
        replay=dict(kind="crypto_roundtrip", differential=True)),
    "contract_sign_recover": dict(props=["C19"], crates=CRS, fn=contract_sign_recover, witnesses=["ok", "ok-reordered"],
        bound_text="contract with symbolic salt; secp256k1 uninterpreted under A1 (recover(m, sign(m, sk)) = pub(sk), serialize/from_compact inverse); SHA-256 uninterpreted",
        replay=dict(kind="crypto_roundtrip", differential=True)),
    "recover_malformed": dict(props=["C19", "C06"], crates=CRS, fn=recover_malformed, witnesses=["ok", "err"],
        bound_text="any 64 signature bytes, any recovery-id byte, any digest", replay=dict(kind="crypto_roundtrip", differential=True)),
    "encodings": dict(props=["C19", "C12"], crates=CRS, fn=encodings, witnesses=["ok"],
        bound_text="any 33 key bytes, any 64 signature bytes and recovery id", replay=dict(kind="crypto_roundtrip", differential=True)),
}
