from replay_common import *
import h_check


def prepare(rp, ce, params):
    m = ce.get("model") or {}
    tr = ce.get("trace") or []
    if any(t.startswith("dimA=") for t in tr):
        pick = (ce.get("extra") or {}).get("pick")
        if not pick: return None, "no structural parameters recorded"
        ns = pick["solutions"]; left = pick["mutations"]; sols = []; keyctr = 0
        for s in range(ns):
            take = min(left, 100) if s < ns - 1 else left
            left -= take
            muts = []
            for j in range(take):
                first = s == 0 and j == 0
                kl = pick["key"] if first else 1; vl = pick["value"] if first else 1
                key = ([keyctr] + [0] * (kl - 1)) if kl > 0 else []
                keyctr += 1
                muts.append("[" + " ".join(map(str, key)) + "|" + " ".join(["0"] * vl) + "]")
            data = " ".join([str(pick["slot_words"])] * pick["slots"]) if s == 0 else ""
            sols.append(f"{1 + s % 2},{10 + s},{data},{';'.join(muts)}")
        total = pick["mutations"] if ns else 0
        want = (1 <= ns <= 100 and pick["slots"] <= 100 and (pick["slots"] == 0 or pick["slot_words"] <= 10000) and total <= 1000
                and (not (ns and total) or (pick["key"] <= 1000 and pick["value"] <= 10000)))
        fields = dict(kind="check_set", fn="set", solutions=" // ".join(sols))
        return fields, (lambda out: ((out.get("result") == "ok") != want, f"documented limits say {'accept' if want else 'reject'}, real check_set: {out.get('result')} {out.get('err','')[:100]}"))
    if any(t.startswith("preds=") for t in tr):
        nn = [0, 999, 1000, 1001][trace_val(ce, "nodes")]; ne = [0, 999, 1000, 1001][trace_val(ce, "edges")]
        npred = [0, 1, 99, 100, 101][trace_val(ce, "preds")]; pos = trace_val(ce, "bad_pos")
        fields = dict(kind="check_set", fn="predicate", nodes=str(nn), edges=str(ne), preds=str(npred), pos=str(pos))

        def judge(out):
            w1 = nn <= 1000 and ne <= 1000
            w2 = npred <= 100 and (npred == 0 or w1)
            bad = ((out.get("check") == "true") != w1 or (out.get("contract") == "ok") != w2 or (out.get("encode") == "true") != w1
                   or out.get("encode_size_ok") == "false")
            return bad, f"limits say check={w1} encode={w1} contract={w2}; real: {out}"
        return fields, judge
    # set_mutations_unique
    ns = 1 + trace_val(ce, "solutions")
    sols, allm = [], []
    for s in range(ns):
        ct = 1 + trace_val(ce, f"contract{s}"); nm = trace_val(ce, f"muts{s}")
        muts = []
        for j in range(nm):
            k = seq(m, f"k{s}_{j}_"); v = seq(m, f"v{s}_{j}_") or [0]
            k = k[:trace_val(ce, f"k{s}_{j}_len")] if trace_val(ce, f"k{s}_{j}_len") <= len(k) else k + [0] * (trace_val(ce, f"k{s}_{j}_len") - len(k))
            muts.append("[" + " ".join(map(str, k)) + "|" + " ".join(map(str, v)) + "]"); allm.append((ct, tuple(k)))
        sols.append(f"{ct},{10 + s},,{';'.join(muts)}")
    dup = len(set(allm)) != len(allm)
    fields = dict(kind="check_set", fn="set", solutions=" // ".join(sols))
    return fields, (lambda out: ((out.get("result") == "ok") == dup, f"{'conflicting' if dup else 'no conflicting'} mutations; real check_set: {out.get('result')} {out.get('err','')[:100]}"))
