"""flat_level replayed through the two-pass check with one real leaf program per node: [1] / [0] / data output (memory = one
mutation with key [node]) / a program that pops an empty stack."""
import re
from replay_common import *


def prepare(rp, ce, params):
    n = 2 + trace_val(ce, "nodes")
    kinds = [["true", "false", "data", "err"][trace_val(ce, f"kind{i}")] for i in range(n)]
    ca = trace_val(ce, "collect_all")
    front = bool(ce.get("front_pad"))
    if front:
        kinds = ["true"] + kinds; n += 1
    fields = dict(kind="check_graph", n=str(n), edge_starts=" ".join(["65535"] * n), edges="", collect_all=str(ca))
    for i, k in enumerate(kinds):
        # padding pushes make the programs (hence their content addresses) distinct
        pad = "".join(f"Stack::Push:{100 + i};Stack::Pop:0;" for _ in range(1))
        # lower-indexed nodes take longer, so on a pool with several threads the completion order tends to differ from the index order
        delay = (100000 if i == 0 else 0) if front else 30000 * (n - 1 - i)
        if delay: pad += f"Stack::Push:{delay};Stack::Push:1;Stack::Repeat:0;Stack::Push:0;Stack::Pop:0;Stack::RepeatEnd:0;"
        if k == "true": prog = pad + "Stack::Push:1"
        elif k == "false": prog = pad + "Stack::Push:0"
        elif k == "err": prog = pad + "Stack::Pop:0"
        else:
            words = [1, 1, i, 1, 50 + i]
            prog = pad + f"Stack::Push:{len(words)};Memory::Alloc:0;Stack::Pop:0;" + "".join(f"Stack::Push:{w};Stack::Push:{a};Memory::Store:0;" for a, w in enumerate(words)) + "Stack::Push:2"
        fields[f"prog{i}"] = prog
    failing = [i for i in range(n) if kinds[i] == "err"]
    unsat = [i for i in range(n) if kinds[i] == "false"]
    data = [i for i in range(n) if kinds[i] == "data"]

    def judge(out):
        if "panic" in out: return True, "real code panics: " + out["panic"][:200]
        if "result" not in out: return False, "no result: " + str(out)[:200]
        err = out.get("err", "")
        if failing:
            want = failing if ca else failing[:1]
            got = [int(x) for x in re.findall(r"\((\d+), Vm\(", err)]
            return out["result"] != "err" or "ProgramErrors" not in err or got != want, f"failing nodes: expected {want}, real: {out['result']} {got} {err[:120]}"
        if unsat:
            m = re.search(r"ConstraintsUnsatisfied\(\[([\d, ]*)\]\)", err)
            got = [int(x) for x in m.group(1).split(",") if x.strip()] if m else None
            return out["result"] != "err" or got != unsat, f"unsatisfied nodes: expected {unsat}, real: {out['result']} {got} {err[:120]}"
        got = [int(x.split("|")[0].strip("[ ")) for x in out.get("mutation_list", "").split(";") if x.strip()]
        return out["result"] != "ok" or got != data, f"data outputs of nodes {data} expected in that order, real: {out['result']} {got} {err[:100]}"
    return fields, judge


def variants(rp, ce, params):
    """the same level behind one slow satisfied leaf: with two workers the second half of the level then finishes before the
    first half has started its later nodes"""
    yield "one slow satisfied leaf in front (indices shift by one)", dict(ce, front_pad=True)
