"""post-state overlay replayed through the two-pass check: a leaf program performs the PostKeyRange read
and compares the resulting memory with the layout computed by the reference overlay semantics."""
from replay_common import *

MAXW, MINW = (1 << 63) - 1, -(1 << 63)


def succ(key):
    k = list(key)
    for i in range(len(k) - 1, -1, -1):
        if k[i] == MAXW: k[i] = MINW
        else:
            k[i] += 1
            return k
    return None


def prepare(rp, ce, params):
    m = ce.get("model") or {}
    tr = ce.get("trace") or []
    if any(t.startswith("len=") for t in tr) and not any(t.startswith("klen=") or t.startswith("n=") for t in tr):
        # next_key_spec: read 2 values starting at the key
        key = seq(m, "k"); key = (key + [0] * 8)[:trace_val(ce, "len")]
        n, post, has_contract = 2, {}, True
        post[tuple([7777] + key)[:max(len(key), 1)] if False else ("dummy",)] = None
        pre_vals = {}
    else:
        nsel = trace_val(ce, "n")
        klen = trace_val(ce, "klen")
        key = (seq(m, "key") + [0] * 8)[:klen]
        n = nsel
        if nsel == 3:
            # huge count: with the model's key the walk would take 2^63 steps; the last key of the key space ends it after one
            # value, so the real code must answer (the judge compares real and reference on the input actually run)
            key = [MAXW] * klen
            n = MAXW
        has_contract = trace_val(ce, "contract_in_post") == 1
        post = {}
        for j in range(trace_val(ce, "n_post") if has_contract else 0):
            pk = (seq(m, f"pk{j}_") + [0] * 8)[:klen]
            pv = (seq(m, f"pv{j}_") + [0] * 8)[:trace_val(ce, f"pv{j}_len")]
            post[tuple(pk)] = pv
        if trace_val(ce, "pre_fails") == 1: return None, "pre-state error path is not realised by the replay state"
    # reference walk
    vals, pre, cur, ci = [], {}, list(key), 0
    for i in range(min(n, 4)):
        if cur is None: break
        t = tuple(cur)
        if has_contract and t in post and post[t] is not None:
            vals.append(list(post[t]))
        else:
            v = seq(m, f"pre{ci}_0_")
            if not v: v = [500 + i]
            if any(x.startswith("len=") for x in tr) and not any(x.startswith("klen=") for x in tr): v = [500 + i]
            pre[t] = v; vals.append(v); ci += 1
        cur = succ(cur)
    cap = 2 * len(vals) + sum(len(v) for v in vals)
    exp, a = [], 2 * len(vals)
    for v in vals:
        exp += [a, len(v)]; a += len(v)
    for v in vals: exp += v
    ops = [f"Stack::Push:{cap}", "Memory::Alloc:0", "Stack::Pop:0"] + [f"Stack::Push:{w}" for w in key] + \
          [f"Stack::Push:{len(key)}", f"Stack::Push:{n}", "Stack::Push:0", "StateRead::PostKeyRange:0"]
    if cap:
        ops += ["Stack::Push:0", f"Stack::Push:{cap}", "Memory::LoadRange:0"] + [f"Stack::Push:{w}" for w in exp] + [f"Stack::Push:{cap}", "Pred::EqRange:0"]
    else:
        ops += ["Stack::Push:1"]
    muts = ";".join("[" + " ".join(map(str, k)) + "|" + " ".join(map(str, v)) + "]" for k, v in post.items() if v is not None)
    if has_contract and not muts: muts = "[424242 424242 424242|1]"        # makes the contract present in the post-state
    fields = dict(kind="check_leaves", n="1", solutions=f"1,10,,{muts if has_contract else ''}", prog0=";".join(ops),
                  pre=";".join("1:" + " ".join(map(str, k)) + "|" + " ".join(map(str, v)) for k, v in pre.items()))

    def judge(out):
        if "panic" in out: return True, "real code panics: " + out["panic"][:200]
        ok = out.get("result") == "ok"
        return (not ok), f"a program comparing the post-state read with the reference overlay {'is satisfied' if ok else 'fails: ' + out.get('err', '')[:140]}"
    return fields, judge
