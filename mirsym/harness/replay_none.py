def prepare(rp, ce, params):
    return None, "foreign cryptography is uninterpreted in this harness: no native replay"
