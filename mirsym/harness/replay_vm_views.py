from replay_common import *


def prepare(rp, ce, params):
    """a pre-state read and a post-state read through the real (pre, post) tuple: the request log says which component was asked"""
    which = (ce.get("extra") or {}).get("which", "pre")
    op = "StateRead::KeyRange" if which == "pre" else "StateRead::PostKeyRange"
    fields = dict(kind="vm_io", op=op, stack="5 1 1 0", memory="0 0 0", state_ret="7", index="0")

    def judge(out):
        if "panic" in out: return True, "real code panics: " + out["panic"][:200]
        req = out.get("requests", "")
        return not req.startswith(which + "|"), f"{op} must ask the {which} view; real request log: {req[:80]} (result {out.get('result')})"
    return fields, judge
