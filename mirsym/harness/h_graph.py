"""C01 (L2) / C03 (deferral) / C06: the predicate-graph scheduler of essential-check executed from MIR
(check_predicate_inner with create_parent_map, in_degrees, reduce_in_degrees, find_nodes_with_no_parents,
parallel_topo_sort, find_deferred, should_cache, remove_deferred, remove_not_deferred, node_edges and
asm::effects::bytes_contains_any) on symbolic graphs, with an uninterpreted node runner."""
import re
import z3
from session import *      # noqa
from h_vmops import AND, OR, NOT
from h_types import mk_node

U16MAX = 0xFFFF


def mk_pred(I, h, N, NE):
    E = I.E
    ess = [E.sym_int(f"es{i}", "u16") for i in range(N)]
    edges = [E.sym_int(f"e{j}", "u16") for j in range(NE)]
    nodes = [mk_node(h, ess[i], [Int("u8", i)] + [Int("u8", 0)] * 31) for i in range(N)]
    p = Agg("Predicate", [Cell(h.vec(nodes)), Cell(h.vec(list(edges)))])
    return p, ess, edges


class World:
    """uninterpreted runner + program store shared by the two passes"""

    def __init__(self, I, h, pred, N, flags, special=None, kind=None):
        self.I, self.h, self.pred, self.N, self.flags = I, h, pred, N, flags
        self.log = []                 # (pass, node, [input tokens])
        self.cur_pass = "Outputs"
        self.special, self.kind = special, kind
        self.gas = [I.E.sym_int(f"g{i}", "u64") for i in range(N)]

    def leaf(self, ix):
        r = self.h.call("types", "node_edges", [self.h.ref(self.pred), Int("usize", ix)])
        return r.variant == "Some" and len(r.cells[0].v) == 0

    def run(self, I, ixv, inputs):
        h = self.h
        ix = ixv.v
        toks = []
        for c in inputs.cells:
            tup = c.v.cell.v                                  # Arc<(Stack, Memory)>
            toks.append(tup.cells[0].v.cells[0].v.cells[0].v.v)
        self.log.append((self.cur_pass, ix, toks))
        en = I.P.enums["check"]
        if self.special == ix and self.kind == "err":
            res = h.err(h.enum("check", "solution::ProgramError", "ParentStackConcatOverflow",
                               h.enum("vm", "error::StackError", "Overflow")))
            return Agg(None, [Cell(ixv), Cell(res)])
        if self.leaf(ix):
            k = self.kind if self.special == ix else "true"
            if k == "data":
                po = h.enum("check", "solution::ProgramOutput", "DataOutput",
                            h.enum("check", "solution::DataOutput", "Memory", h.memory([Int("i64", 7000 + ix)])))
            else:
                po = h.enum("check", "solution::ProgramOutput", "Satisfied", k != "false")
            out = h.enum("check", "solution::Output", "Leaf", po)
        else:
            tup = Agg(None, [Cell(h.stack([Int("i64", ix)])), Cell(h.memory([]))])
            out = h.enum("check", "solution::Output", "Parent", Ptr(Cell(tup), "arc"))
        return Agg(None, [Cell(ixv), Cell(h.ok(Agg(None, [Cell(out), Cell(self.gas[ix])])))])

    def get_program(self, I, callee, args, fr):
        addr = stdmodels.deref(args[1])
        i = addr.cells[0].v.cells[0].v.v
        f = self.flags[i]
        byte = Int("u8", 0x82 if f else 0x02) if isinstance(f, bool) else mk_int("u8", z3.If(f, z3.BitVecVal(0x82, 8), z3.BitVecVal(0x02, 8)))
        return Ptr(Cell(Agg("Program", [Cell(self.h.vec([byte]))])), "arc")


def run_pass(I, h, w, pred, mode, cache, collect_all):
    w.cur_pass = mode
    ctx = Agg("Ctx", [Cell(h.enum("check", "solution::RunMode", mode)), Cell(Ref(cache))])
    cfg = Agg("CheckPredicateConfig", [Cell(collect_all)])
    return h.call("check", "check_predicate_inner",
                  [PyFn(w.run, "run"), Ptr(Cell(pred), "arc"), h.ref(cfg), h.ref(Agg("GetProgram", [])), ctx])


def concrete_graph(I, h, pred, N, edges):
    """children lists per node through the real node_edges (its correctness is decided by
    h_types::node_edges_spec) + classification of every edge target (node i / dangling)."""
    E = I.E
    tgt = []
    for e in edges:
        k = None
        for i in range(N):
            if E.branch(int_binop("Eq", e, Int("u16", i)), "tgt"):
                k = i
                break
        tgt.append(k)
    kids, malformed = {}, False
    for i in range(N):
        r = h.call("types", "node_edges", [h.ref(pred), Int("usize", i)])
        if r.variant == "None":
            malformed = True
            kids[i] = None
        else:
            s = r.cells[0].v
            kids[i] = [tgt[j] for j in range(s.lo, s.hi)]
    return kids, malformed, tgt


def analyse(kids, N):
    """(cyclic, dangling, levels) of the concrete graph; levels = Kahn levels ignoring dangling targets"""
    dangling = any(c is None for i in range(N) for c in (kids[i] or []))
    indeg = {i: 0 for i in range(N)}
    for i in range(N):
        for c in kids[i]:
            if c is not None: indeg[c] += 1
    left, levels = dict(indeg), []
    while left:
        lvl = sorted(i for i, d in left.items() if d == 0)
        if not lvl: return True, dangling, levels
        levels.append(lvl)
        for i in lvl:
            for c in kids[i]:
                if c is not None and c in left and c not in lvl: left[c] -= 1
                elif c is not None and c in lvl: pass
            del left[i]
    return False, dangling, levels


def setup(I):
    pass


def scheduling(I, h, N=3, NE=3, outcomes=False):
    E = I.E
    n = 1 + E.choose(N, "nodes")
    ne = E.choose(NE + 1, "edges")
    pred, ess, edges = mk_pred(I, h, n, ne)
    flags = [E.sym_bool(f"d{i}") for i in range(n)]
    special = kind = None
    collect_all = False
    if outcomes:
        s = E.choose(1 + 3 * n, "special")
        if s: special, kind = (s - 1) // 3, ["err", "false", "data"][(s - 1) % 3]
        collect_all = bool(E.choose(2, "collect_all"))
    w = World(I, h, pred, n, flags, special, kind)
    I.overrides.append((re.compile(r"GetProgram>::get_program"), w.get_program))
    cache = Cell(MapV("hash"))
    r1 = run_pass(I, h, w, pred, "Outputs", cache, collect_all)
    log1 = list(w.log)
    r2 = None
    if r1.variant == "Ok":
        r2 = run_pass(I, h, w, pred, "Checks", cache, collect_all)
    kids, malformed, tgt = concrete_graph(I, h, pred, n, edges)
    # ---- 1. malformed / cyclic graphs are rejected without evaluating anything
    if malformed:
        if r1.variant != "Err" or r1.cells[0].v.variant != "InvalidNodeEdges":
            raise Violation("malformed edge list is not rejected with InvalidNodeEdges", E.model_for(), dict(kids=str(kids)))
        if w.log: raise Violation("nodes were evaluated although the edge list is malformed", E.model_for())
        return "malformed"
    cyclic, dangling, levels = analyse(kids, n)
    if dangling:
        return "dangling"          # only totality (no panic) is claimed for targets >= number of nodes
    if cyclic:
        if r1.variant != "Err": raise Violation("cyclic graph accepted by the first pass", E.model_for(), dict(kids=str(kids)))
        if w.log: raise Violation("nodes were evaluated although the graph is cyclic", E.model_for(), dict(kids=str(kids)))
        return "cyclic"
    # ---- DAG: reference semantics
    parents = {i: [] for i in range(n)}
    for p in range(n):
        for c in kids[p]: parents[c].append(p)
    for c in parents: parents[c].sort()
    anc = {i: {i} for i in range(n)}
    for _ in range(n):
        for p in range(n):
            for c in kids[p]: anc[c] |= anc[p]
    level_of = {i: li for li, lv in enumerate(levels) for i in lv}
    if special is not None and kind != "err" and kids[special] != []:
        special = kind = None          # only a leaf can be unsatisfied / output data
    gx = dict(kids=str(kids), log=str(w.log))
    # 2. every node at most once over both passes
    ran = [ix for _, ix, _ in w.log]
    if len(set(ran)) != len(ran): raise Violation("a node was evaluated more than once", E.model_for(), gx)
    failing = special is not None and kind == "err"
    for pas, ix, toks in w.log:
        # 4. pass assignment: Checks pass iff the node or an ancestor performs a post-state read
        deferred = OR(*[flags[a] for a in sorted(anc[ix])])
        if pas == "Outputs":
            check(E, deferred, f"node {ix} depends on a post-state read but was evaluated in the first pass", gx)
        else:
            check(E, NOT(deferred), f"node {ix} does not depend on a post-state read but was evaluated in the second pass", gx)
        # 3. inputs = outputs of all parents, ascending, with multiplicity
        skip = failing and any(special in anc[p] for p in parents[ix])     # collect_all keeps going after a failed parent
        if not skip and toks != parents[ix]:
            raise Violation(f"node {ix} was evaluated with inputs {toks}, its parents are {parents[ix]}", E.model_for(), gx)
        for p in parents[ix]:
            if p not in ran[:ran.index(ix)] and not skip:
                raise Violation(f"node {ix} evaluated before its parent {p}", E.model_for(), gx)
    # 5. verdict
    if special is None or kind in ("data",):
        if r1.variant != "Ok" or r2 is None or r2.variant != "Ok":
            raise Violation("all programs succeed and all leaves are satisfied, but the check fails", E.model_for(), gx)
        if sorted(ran) != list(range(n)): raise Violation(f"not every node was evaluated exactly once: {sorted(ran)}", E.model_for(), gx)
        # gas = saturating sum of the gas of the nodes evaluated in that pass
        for r, pas in ((r1, "Outputs"), (r2, "Checks")):
            tot = None
            for _, ix, _ in [l for l in w.log if l[0] == pas]:
                g = w.gas[ix].z3()
                if tot is None: tot = g
                else:
                    s = tot + g
                    tot = z3.If(z3.ULT(s, tot), z3.BitVecVal((1 << 64) - 1, 64), s)
            got = r.cells[0].v.cells[0].v
            want = mk_int("u64", tot) if tot is not None else Int("u64", 0)
            check(E, b_not(int_binop("Eq", got, want)), f"gas reported by the {pas} pass is not the saturating sum of its nodes", gx)
        data = []
        for r in (r1, r2): data += [d for d in stdmodels.as_slice(r.cells[0].v.cells[1].v).cells()]
        if (kind == "data") != (len(data) == 1): raise Violation("data outputs do not match the data leaves", E.model_for(), gx)
        if kind == "data":
            m = data[0].v.cells[0].v.cells[0].v.cells[0].v
            if m.v != 7000 + special: raise Violation("wrong memory reported as data output", E.model_for(), gx)
        return "dag-ok"
    res = r1 if r1.variant == "Err" else r2
    if res is None or res.variant != "Err":
        raise Violation(f"node {special} {kind}s but the check succeeds", E.model_for(), gx)
    ev = res.cells[0].v
    if kind == "err":
        if ev.variant != "ProgramErrors": raise Violation(f"failing program reported as {ev.variant}", E.model_for(), gx)
        ixs = [c.v.cells[0].v.v for c in stdmodels.as_slice(ev.cells[0].v.cells[0].v).cells()]
        if ixs != [special]: raise Violation(f"failing node indices {ixs} != [{special}]", E.model_for(), gx)
    else:
        if ev.variant != "ConstraintsUnsatisfied": raise Violation(f"unsatisfied leaf reported as {ev.variant}", E.model_for(), gx)
        ixs = [c.v.v for c in stdmodels.as_slice(ev.cells[0].v.cells[0].v).cells()]
        if ixs != [special]: raise Violation(f"unsatisfied indices {ixs} != [{special}]", E.model_for(), gx)
    return "dag-fail"


def flat_level(I, h, N=3):
    """one level of 2..N independent leaves, each true / false / data / failing, both collect_all values: the verdict lists ALL
    unsatisfied (or failing) nodes in ascending node order, data outputs come in ascending node order, gas is the saturating sum
    - whatever the order in which the nodes of the level are evaluated"""
    E = I.E
    n = 2 + E.choose(N - 1, "nodes")
    kinds = [["true", "false", "data", "err"][E.choose(4, f"kind{i}")] for i in range(n)]
    collect_all = bool(E.choose(2, "collect_all"))
    nodes = [mk_node(h, Int("u16", 0xFFFF), [Int("u8", i)] + [Int("u8", 0)] * 31) for i in range(n)]
    pred = Agg("Predicate", [Cell(h.vec(nodes)), Cell(h.vec([]))])
    gas = [E.sym_int(f"g{i}", "u64") for i in range(n)]
    order = []

    def run(I_, ixv, inputs):
        ix = ixv.v
        order.append(ix)
        k = kinds[ix]
        if k == "err":
            return Agg(None, [Cell(ixv), Cell(h.err(h.enum("check", "solution::ProgramError", "ParentStackConcatOverflow", h.enum("vm", "error::StackError", "Overflow"))))])
        if k == "data":
            po = h.enum("check", "solution::ProgramOutput", "DataOutput", h.enum("check", "solution::DataOutput", "Memory", h.memory([Int("i64", 7000 + ix)])))
        else:
            po = h.enum("check", "solution::ProgramOutput", "Satisfied", k == "true")
        return Agg(None, [Cell(ixv), Cell(h.ok(Agg(None, [Cell(h.enum("check", "solution::Output", "Leaf", po)), Cell(gas[ix])])))])
    I.overrides.append((re.compile(r"GetProgram>::get_program"), lambda I_, c, a, fr: Ptr(Cell(Agg("Program", [Cell(h.vec([Int("u8", 0x02)]))])), "arc")))
    cache = Cell(MapV("hash"))
    ctx = Agg("Ctx", [Cell(h.enum("check", "solution::RunMode", "Outputs")), Cell(Ref(cache))])
    cfg = Agg("CheckPredicateConfig", [Cell(collect_all)])
    r = h.call("check", "check_predicate_inner", [PyFn(run, "run"), Ptr(Cell(pred), "arc"), h.ref(cfg), h.ref(Agg("GetProgram", [])), ctx])
    gx = dict(kinds=kinds, collect_all=collect_all, order=str(order))
    if sorted(order) != list(range(n)) and not (not collect_all and "err" in kinds):
        raise Violation(f"nodes evaluated: {order}", E.model_for(), gx)
    failing = [i for i in range(n) if kinds[i] == "err"]
    unsat = [i for i in range(n) if kinds[i] == "false"]
    if failing:
        want = failing if collect_all else failing[:1]
        if r.variant != "Err" or r.cells[0].v.variant != "ProgramErrors": raise Violation("failing programs are not reported as ProgramErrors", E.model_for(), gx)
        ixs = [c.v.cells[0].v.v for c in stdmodels.as_slice(r.cells[0].v.cells[0].v.cells[0].v).cells()]
        if ixs != want: raise Violation(f"failing node indices {ixs}, expected {want} (ascending{'' if collect_all else ', first only'})", E.model_for(), gx)
        return "failing"
    if unsat:
        if r.variant != "Err" or r.cells[0].v.variant != "ConstraintsUnsatisfied": raise Violation("unsatisfied leaves are not reported as ConstraintsUnsatisfied", E.model_for(), gx)
        ixs = [c.v.v for c in stdmodels.as_slice(r.cells[0].v.cells[0].v.cells[0].v).cells()]
        if ixs != unsat: raise Violation(f"unsatisfied indices {ixs}, expected {unsat} (all of them, ascending)", E.model_for(), gx)
        return "unsatisfied"
    if r.variant != "Ok": raise Violation("every leaf is satisfied or outputs data, but the check fails", E.model_for(), gx)
    tot = None
    for g in gas:
        if tot is None: tot = g.z3()
        else:
            s_ = tot + g.z3()
            tot = z3.If(z3.ULT(s_, tot), z3.BitVecVal((1 << 64) - 1, 64), s_)
    check(E, b_not(int_binop("Eq", r.cells[0].v.cells[0].v, mk_int("u64", tot))), "gas is not the saturating sum of the nodes", gx)
    data = [d.v.cells[0].v.cells[0].v.cells[0].v.v for d in stdmodels.as_slice(r.cells[0].v.cells[1].v).cells()]
    want = [7000 + i for i in range(n) if kinds[i] == "data"]
    if data != want: raise Violation(f"data outputs {data}, expected {want} (ascending node order)", E.model_for(), gx)
    return "ok-data" if want else "ok"


def outcomes(I, h, N=2, NE=2):
    return scheduling(I, h, N, NE, outcomes=True)


CR = ["types", "asm", "vm", "check"]
HARNESSES = {
    "scheduling": dict(props=["C01", "C03", "C06", "C07"], crates=CR, fn=scheduling,
        params=dict(quick=dict(N=3, NE=2), thorough=dict(N=3, NE=3)), witnesses=["dag-ok", "malformed", "cyclic", "dangling"],
        bound=dict(quick="1..3 nodes, <=2 edges, every edge_start and edge target any u16, one post-read flag per node, both passes over a shared cache; all runner outcomes succeed",
                   thorough="1..3 nodes, <=3 edges"),
        timeout=dict(quick=900, thorough=3300), max_paths=dict(quick=400000, thorough=3000000), heavy=True,
        replay=dict(kind="check_graph")),
    "flat_level": dict(props=["C01", "C07"], crates=CR, fn=flat_level, params=dict(quick=dict(N=3), thorough=dict(N=4)),
        witnesses=["ok", "ok-data", "unsatisfied", "failing"],
        bound=dict(quick="one level of 2..3 independent leaves, each true / false / data output / failing, both values of collect_all_failures, symbolic gas", thorough="2..4 leaves"),
        replay=dict(kind="check_flat")),
    "outcomes": dict(props=["C01", "C06"], crates=CR, fn=outcomes,
        params=dict(quick=dict(N=2, NE=2), thorough=dict(N=3, NE=2)), witnesses=["dag-ok", "dag-fail"],
        bound=dict(quick="1..2 nodes, <=2 edges (any u16), one node may fail / be unsatisfied / output data, both values of collect_all_failures",
                   thorough="1..3 nodes, <=2 edges"),
        timeout=dict(quick=900, thorough=3300), max_paths=dict(quick=400000, thorough=3000000), heavy=True,
        replay=dict(kind="check_graph")),
}
