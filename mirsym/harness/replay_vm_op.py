"""native replay + concrete reference evaluation for the per-op harnesses"""
from values import *   # noqa
from nativereplay import sw


def prepare(rp, ce, params):
    import h_vmops
    model = ce.get("model") or {}
    key = rp["op"]
    spec = h_vmops.OPS[key]

    def seq(prefix):
        out, i = [], 0
        while f"{prefix}{i}" in model:
            out.append(sw(model[f"{prefix}{i}"])); i += 1
        return out
    S, M, PMv = seq("s"), seq("m"), seq("p")
    tr = " ".join(ce.get("trace") or [])
    if rp.get("lim"):
        from replay_common import trace_val
        ps = [4091, 4092, 4093][trace_val(ce, "pad_s")]; pm = [10236, 10237, 10238][trace_val(ce, "pad_m")]
        S = [0] * ps + S
        if M or key.startswith("Memory"): M = [0] * pm + M
        if PMv or "has_parent=1" in tr: PMv = [0] * pm + PMv
    if key == "Stack::Push" and "len=" in tr:
        from replay_common import trace_val
        S = [0] * [4094, 4095, 4096][trace_val(ce, "len")]
    has_parent = "has_parent=1" in tr
    fields = dict(kind="vm_op", op=key, stack=" ".join(map(str, S)), memory=" ".join(map(str, M)),
                  pc=str(min(model.get("pc", 0), 3)))
    if has_parent: fields["parent"] = " ".join(map(str, PMv))
    Si = [Int("i64", x) for x in S]; Mi = [Int("i64", x) for x in M]
    PMi = [Int("i64", x) for x in PMv] if has_parent else None
    # concrete reference result
    if len(S) < spec["need"]:
        exp = None
    else:
        valid = spec["pre"](Si, Mi, PMi) if "pre" in spec else True
        if rp.get("lim") and valid is True and spec.get("fits"):
            valid = spec["fits"](Si, Mi, PMi)
        if key == "Stack::Push":
            valid = len(S) < 4096
            exp = (S + [sw(model.get("w", 0))], M) if valid else None
            fields["imm"] = str(sw(model.get("w", 0)))
        elif valid is True:
            conc = [x.sval() for x in (spec.get("structural") or (lambda S: []))(Si)]
            eS, eM = spec["post"](Si, Mi, PMi, conc)
            exp = ([x.sval() for x in eS], [x.sval() for x in eM])
        else:
            exp = None

    def judge(out):
        if "panic" in out: return True, "real code panics: " + out["panic"][:200]
        if "crash" in out: return True, "real code crashed: " + out["crash"][:200]
        if out.get("result") == "ok":
            if exp is None: return True, "real code returns Ok where the reference model requires an error"
            st = [int(x) for x in out.get("stack", "").split()]
            me = [int(x) for x in out.get("memory", "").split()]
            if st != exp[0] or me != exp[1]:
                return True, f"real result stack={st} memory={me} differs from reference stack={exp[0]} memory={exp[1]}"
            return False, "real result equals the reference model"
        if out.get("result") == "err":
            if exp is not None: return True, "real code returns Err where the reference model defines a result: " + out.get("err", "")
            return False, "real code returns Err as the reference model requires"
        return False, "no result: " + str(out)[:200]
    return fields, judge
