from replay_common import *
import replay_hash_addrs


def prepare(rp, ce, params):
    """counterexamples of the symbolic harness go through the ordinary address replay; witnesses of passing paths run the native
    differential of the postcard layer (structurally different solutions -> different bytes / addresses; set order independence)"""
    if not str(ce.get("what", "")).startswith("ok-path"):
        return replay_hash_addrs.prepare(dict(rp, kind="hash_addrs"), ce, params)
    fields = dict(kind="hash_solution_diff")

    def judge(out):
        if "panic" in out: return True, "real code panics: " + out["panic"][:200]
        bad = [k for k, v in out.items() if v == "false"]
        return bool(bad), ("solution addresses: " + ", ".join(bad) + " fails; " + out.get("first_collision", "")[:200]) if bad else f"{out.get('solutions')} structurally different solutions: distinct pre-hash bytes and addresses; set address order-independent"
    return fields, judge
