"""C03 (overlay) / C04 / C16 / C06: post-state overlay, validators and computed mutations of
essential-check, from MIR."""
import re
import z3
from session import *      # noqa
from h_vmops import AND, OR, NOT, W
from h_types import mk_mutation, seq_vals, ints_eq

I64MAX, I64MIN = (1 << 63) - 1, -(1 << 63)


def addr(h, tag):
    return Agg("ContentAddress", [Cell(h.vec([Int("u8", tag)] + [Int("u8", 0)] * 31, "array"))])


def paddr(h, ctag, ptag):
    return Agg("PredicateAddress", [Cell(addr(h, ctag)), Cell(addr(h, ptag))])


def mk_solution(h, ctag, ptag, data, muts):
    return Agg("Solution", [Cell(paddr(h, ctag, ptag)), Cell(h.vec(data)), Cell(h.vec(muts))])


def mk_set(h, sols):
    return Agg("SolutionSet", [Cell(h.vec(sols))])


def keys_equal(a, b):
    if len(a) != len(b): return False
    return AND(*[int_binop("Eq", x, y) for x, y in zip(a, b)]) if a else True


# ------------------------------------------------------------------ next_key
def next_key_spec(I, h, nmax=4):
    """next_key = successor in the lexicographic order of fixed-length keys with carry; None iff every word is MAX"""
    E = I.E
    n = E.choose(nmax + 1, "len")
    ws = h.words("k", n)
    r = h.call("check", "next_key", [h.vec(list(ws))])
    allmax = AND(*[int_binop("Eq", w, W(I64MAX)) for w in ws]) if ws else True
    if r.variant == "None":
        check(E, NOT(allmax), "next_key returns None although a successor exists")
        return "none"
    check(E, allmax, "next_key returns a key although all words are MAX")
    out = seq_vals(r.cells[0].v)
    if len(out) != n: raise Violation("next_key changes the key length", E.model_for())
    # position p = last word that is not MAX: words after p become MIN, word p is incremented, before p unchanged
    for p in range(n):
        is_p = AND(NOT(int_binop("Eq", ws[p], W(I64MAX))), *[int_binop("Eq", ws[q], W(I64MAX)) for q in range(p + 1, n)])
        for q in range(n):
            want = ws[q] if q < p else (int_binop("Add", ws[q], W(1)) if q == p else W(I64MIN))
            check(E, AND(is_p, NOT(int_binop("Eq", out[q], want))), f"next_key: word {q} wrong when the carry stops at word {p}")
    return "some"


# ------------------------------------------------------------------ read_or_fallback
class PreState:
    """uninterpreted pre-state: every single-key read returns a fresh symbolic value of a chosen length"""

    def __init__(self, I, h, vmax=2, fail_at=None):
        self.I, self.h, self.vmax, self.calls, self.fail_at = I, h, vmax, [], fail_at

    def key_range(self, I, callee, args, fr):
        E, h = I.E, self.h
        k = len(self.calls)
        contract, key, n = args[1], args[2], args[3]
        if self.fail_at == k:
            self.calls.append((contract, seq_vals(key), n, None))
            return h.err(Opaque("StateError", k))
        if not n.concrete:
            nn = 1          # huge request: the uninterpreted pre-state answers with one value
        else:
            nn = n.v
        vals = []
        for j in range(nn):
            ln = E.choose(self.vmax + 1, f"pre{k}_{j}_len")
            vals.append(h.words(f"pre{k}_{j}_", ln))
        self.calls.append((contract, seq_vals(key), n, vals))
        return h.ok(h.vec([h.vec(list(v)) for v in vals]))


def read_or_fallback_spec(I, h, kl=2, nkeys=2, vmax=2):
    """read_or_fallback(post, pre, contract, key, n): per position i < n the proposed value for (contract, key+i)
    if the set proposes one (empty = deletion), else the pre-state value; other contracts go to the pre-state unchanged;
    a pre-state error is returned unchanged; never a panic (any n)."""
    E = I.E
    nsel = E.choose(4, "n")
    huge = nsel == 3
    # (a huge count with a non-empty key would make the real loop run 2^40 times: only the empty key, whose
    #  successor does not exist, is combined with huge counts)
    klen = 0 if huge else E.choose(kl + 1, "klen")
    # post state: contract 1 with up to nkeys proposed keys of the same length as the request (and one of another length)
    has_contract = bool(E.choose(2, "contract_in_post"))
    post_keys, post_vals = [], []
    inner = MapV("hash")
    m = E.choose(nkeys + 1, "n_post") if has_contract else 0
    for j in range(m):
        kws = h.words(f"pk{j}_", klen)
        vl = E.choose(vmax + 1, f"pv{j}_len")
        vws = h.words(f"pv{j}_", vl)
        # distinct keys in the map (a map holds one value per key)
        for pk in post_keys: E.assume(NOT(keys_equal(pk, kws)))
        post_keys.append(kws); post_vals.append(vws)
        inner.items.append((h.vec(list(kws)), Cell(h.vec(list(vws)))))
    outer = MapV("hash")
    if has_contract: outer.items.append((addr(h, 1), Cell(inner)))
    outer.items.append((addr(h, 2), Cell(MapV("hash"))))
    post = Agg("PostState", [Cell(outer)])
    key = h.words("key", klen)
    n = Int("usize", nsel) if nsel < 3 else E.sym_int("n_huge", "usize")
    if huge: E.assume(int_binop("Gt", n, Int("usize", 1 << 40)))
    fail_at = [None, 0][E.choose(2, "pre_fails")]
    pre = PreState(I, h, vmax, fail_at)
    I.overrides.append((re.compile(r"StateRead>::key_range"), pre.key_range))
    r = h.call("check", "read_or_fallback", [h.ref(post), h.ref(Agg("Pre", [])), addr(h, 1), h.vec(list(key)), n])
    if huge:
        # only totality is asserted for huge counts (the result would not fit into memory anyway)
        return "huge"
    if not has_contract:
        # untouched contract: exactly one pre-state call with the same arguments, result passed through
        if len(pre.calls) != 1: raise Violation("untouched contract: pre-state not asked exactly once", E.model_for())
        c = pre.calls[0]
        check(E, NOT(AND(keys_equal(c[1], key), int_binop("Eq", c[2], n))), "untouched contract: request changed")
        if fail_at == 0:
            if r.variant != "Err": raise Violation("pre-state error swallowed", E.model_for())
            return "pre-error"
        if r.variant != "Ok": raise Violation("untouched contract: error although the pre-state succeeded", E.model_for())
        out = seq_vals(r.cells[0].v)
        if len(out) != len(c[3]): raise Violation("untouched contract: values dropped or added", E.model_for())
        for a, b in zip(out, c[3]): ints_eq(E, seq_vals(a), b, "untouched contract value")
        return "fallthrough"
    if r.variant == "Err":
        if fail_at is None or not pre.calls: raise Violation("error without a pre-state error", E.model_for())
        return "pre-error"
    out = [seq_vals(v) for v in seq_vals(r.cells[0].v)]
    # reference: walk the key sequence
    cur = list(key)
    call_ix = 0
    for i in range(nsel):
        if i >= len(out):
            # allowed only if the key sequence overflowed before position i
            prev_all_max = AND(*[int_binop("Eq", w, W(I64MAX)) for w in cur_prev]) if cur_prev else True
            check(E, NOT(prev_all_max), f"fewer than {nsel} values although the key sequence did not overflow")
            break
        hit = False
        for pk, pv in zip(post_keys, post_vals):
            eq = keys_equal(pk, cur)
            if E.branch(eq, "hit"):
                ints_eq(E, out[i], pv, f"position {i}: proposed value")
                hit = True
                break
        if not hit:
            if call_ix >= len(pre.calls): raise Violation(f"position {i}: neither a proposed value nor a pre-state read", E.model_for())
            c = pre.calls[call_ix]; call_ix += 1
            check(E, NOT(AND(keys_equal(c[1], cur), int_binop("Eq", c[2], Int("usize", 1)))), f"position {i}: pre-state asked for another key/count")
            want = c[3][0] if c[3] else []
            ints_eq(E, out[i], want, f"position {i}: pre-state value")
        cur_prev = cur
        # successor (reference next_key, decided separately by next_key_spec)
        nk = h.call("check", "next_key", [h.vec(list(cur))])
        if nk.variant == "None":
            if len(out) > i + 1: raise Violation("values returned beyond the last key of the key space", E.model_for())
            break
        cur = seq_vals(nk.cells[0].v)
    else:
        if len(out) != nsel: raise Violation("more values than requested", E.model_for())
    return "overlay"


# ------------------------------------------------------------------ set-level uniqueness (C04 / C16)
def set_mutations_unique(I, h, smax=3, mmax=2, kl=2):
    """check_set_state_mutations accepts a set only if no two mutations of the WHOLE set address the same
    (contract, key); with that the post-state of an accepted set is well defined and order independent."""
    E = I.E
    ns = 1 + E.choose(smax, "solutions")
    sols, allm = [], []
    for s in range(ns):
        ct = 1 + E.choose(2, f"contract{s}")
        nm = E.choose(mmax + 1, f"muts{s}")
        muts = []
        for j in range(nm):
            klen = E.choose(kl + 1, f"k{s}_{j}_len")
            kws = h.words(f"k{s}_{j}_", klen)
            vws = h.words(f"v{s}_{j}_", 1)
            muts.append(mk_mutation(h, list(kws), list(vws)))
            allm.append((s, ct, kws))
        sols.append(mk_solution(h, ct, 10 + s, [], muts))
    r = h.call("check", "check_set_state_mutations", [h.ref(mk_set(h, sols))])
    dup = False
    for a in range(len(allm)):
        for b in range(a + 1, len(allm)):
            if allm[a][1] == allm[b][1]:
                dup = OR(dup, keys_equal(allm[a][2], allm[b][2]))
    if r.variant == "Ok":
        check(E, dup, "a set proposing two values for one (contract, key) is accepted")
        return "accepted"
    check(E, NOT(dup), "a set without conflicting mutations is rejected")
    return "rejected"


# ------------------------------------------------------------------ computed mutations (C16 / C06)
def computed_mutations(I, h, nw=5):
    """check::decode_mutations(outputs, set): no panic on any data-output memory; an Ok set never holds two
    mutations for one key in a solution (declared + computed)."""
    E = I.E
    dk = h.words("dk", 1)
    declared = [mk_mutation(h, list(dk), [W(4)])] if E.choose(2, "declared") else []
    sols = [mk_solution(h, 1, 10, [], declared), mk_solution(h, 1, 11, [], [])]
    nmem = 1 + E.choose(2, "memories")
    mems = []
    for k in range(nmem):
        n = E.choose(nw + 1, f"mem{k}_len")
        mems.append(h.words(f"m{k}_", n))
    dfs = Agg("DataFromSolution", [Cell(Int("u16", 0)),
                                   Cell(h.vec([h.enum("check", "solution::DataOutput", "Memory", h.memory(list(m))) for m in mems]))])
    outputs = Agg("Outputs", [Cell(Int("u64", 0)), Cell(h.vec([dfs]))])
    r = h.call("check", "solution::decode_mutations", [outputs, mk_set(h, sols)])
    if r.variant == "Err": return "err"
    s0 = seq_vals(r.cells[0].v.cells[0].v)[0]
    ms = seq_vals(s0.cells[2].v)
    keys = [seq_vals(m.cells[0].v) for m in ms]
    for a in range(len(keys)):
        for b in range(a + 1, len(keys)):
            check(E, keys_equal(keys[a], keys[b]), "the returned set holds two mutations for the same key in one solution")
    return "ok"


# ------------------------------------------------------------------ limits (C16)
class Big:
    """helpers building large sequences cheaply (cells are shared: the validators only measure lengths)"""

    def __init__(self, h):
        self.h = h
        self.word = Cell(W(0))

    def words(self, n):
        return Seq([self.word] * n, "vec")


LIMITS = dict(solutions=100, slots=100, slot_words=10000, mutations=1000, key=1000, value=10000)
DIMS = ["solutions", "slots", "slot_words", "mutations", "key", "value"]


def validators_limits(I, h):
    """check_set accepts exactly: 1..=100 solutions, <=100 slots per solution of <=10000 words, <=1000 mutations in
    total, keys <=1000 and values <=10000 words - every pair of limits at/below/above, the others at a valid baseline."""
    E = I.E
    big = Big(h)
    base = dict(solutions=11, slots=1, slot_words=1, mutations=11, key=1, value=1)
    a = E.choose(len(DIMS), "dimA"); b = E.choose(len(DIMS), "dimB")
    pick = dict(base)
    for d, tag in ((DIMS[a], "A"), (DIMS[b], "B")):
        lim = LIMITS[d]
        opts = [lim - 1, lim, lim + 1] + ([0] if d in ("solutions", "slots", "mutations", "key", "value", "slot_words") else [])
        pick[d] = opts[E.choose(len(opts), f"val{tag}")]
    ns = pick["solutions"]
    # distribute mutations over the solutions (<=100 per solution so that key comparison stays cheap), distinct keys
    per, sols, mcount = [], [], 0
    left = pick["mutations"]
    for s in range(ns):
        take = min(left, 100) if s < ns - 1 else left
        per.append(take); left -= take
    if ns == 0 and pick["mutations"] > 0: pick["mutations"] = 0
    keyctr = 0
    for s in range(ns):
        data = [big.words(pick["slot_words"]) for _ in range(pick["slots"])] if s == 0 else []
        muts = []
        for j in range(per[s]):
            first = (s == 0 and j == 0)
            kl = pick["key"] if first else 1
            vl = pick["value"] if first else 1
            k = Seq([Cell(W(keyctr))] + [big.word] * (kl - 1), "vec") if kl > 0 else Seq([], "vec")
            keyctr += 1
            muts.append(Agg("Mutation", [Cell(k), Cell(big.words(vl))]))
        sols.append(mk_solution(h, 1 + (s % 2), 10 + s, data, muts))
    total = sum(per)
    r = h.call("check", "check_set", [h.ref(mk_set(h, sols))])
    has_first = ns > 0 and per and per[0] > 0
    want_ok = (1 <= ns <= 100 and pick["slots"] <= 100 and (pick["slots"] == 0 or pick["slot_words"] <= 10000)
               and total <= 1000 and (not has_first or (pick["key"] <= 1000 and pick["value"] <= 10000)))
    if (r.variant == "Ok") != want_ok:
        raise Violation(f"check_set {'accepts' if r.variant == 'Ok' else 'rejects'} a set with {ns} solutions, {pick['slots']} slots of "
                        f"{pick['slot_words']} words, {total} mutations, first key {pick['key']} / value {pick['value']} words", E.model_for(), dict(pick=pick))
    return "ok" if want_ok else "rejected"


def predicate_limits(I, h):
    """predicate::check / check_contract accept exactly <=1000 nodes, <=1000 edges, <=100 predicates"""
    E = I.E
    nn = [0, 999, 1000, 1001][E.choose(4, "nodes")]
    ne = [0, 999, 1000, 1001][E.choose(4, "edges")]
    npred = [0, 1, 99, 100, 101][E.choose(5, "preds")]
    nodecell = Cell(Agg("Node", [Cell(Int("u16", 0)), Cell(None)]))
    edgecell = Cell(Int("u16", 0))
    p = Agg("Predicate", [Cell(Seq([nodecell] * nn)), Cell(Seq([edgecell] * ne))])
    small = Agg("Predicate", [Cell(Seq([])), Cell(Seq([]))])
    # the wire encoding accepts exactly the same limits (a predicate within limits has an address)
    nodecell.v.cells[1].v = Agg("ContentAddress", [Cell(Seq([Cell(Int("u8", 0))] * 32, "array"))])
    enc = h.call("types", "encode_predicate", [h.ref(p)])
    if (enc.variant == "Ok") != (nn <= 1000 and ne <= 1000):
        raise Violation(f"encode_predicate {'accepts' if enc.variant == 'Ok' else 'rejects'} {nn} nodes / {ne} edges", E.model_for())
    r = h.call("check", "predicate::check", [h.ref(p)])
    if (r.variant == "Ok") != (nn <= 1000 and ne <= 1000):
        raise Violation(f"predicate::check wrong for {nn} nodes / {ne} edges", E.model_for())
    pos = E.choose(max(npred, 1), "bad_pos") if npred else 0
    preds = Seq([Cell(small)] * npred)
    if npred: preds.cells[pos] = Cell(p)
    r2 = h.call("check", "check_contract", [SliceRef(preds, 0, npred)])
    want = npred <= 100 and (npred == 0 or (nn <= 1000 and ne <= 1000))
    if (r2.variant == "Ok") != want:
        raise Violation(f"check_contract wrong for {npred} predicates, one with {nn} nodes / {ne} edges", E.model_for())
    if r2.variant == "Err" and npred <= 100:
        e = r2.cells[0].v
        if e.variant != "Predicate" or e.cells[0].v.v != pos: raise Violation("check_contract names the wrong predicate", E.model_for())
    return "ok" if want else "rejected"


CR = ["types", "asm", "vm", "check"]
HARNESSES = {
    "next_key_spec": dict(props=["C03"], crates=CR, fn=next_key_spec, params=dict(quick=dict(nmax=4), thorough=dict(nmax=6)),
                          witnesses=["some", "none"], bound=dict(quick="keys of 0..4 words, any words", thorough="0..6 words"),
                          replay=dict(kind="check_overlay")),
    "read_or_fallback_spec": dict(props=["C03", "C06"], crates=CR, fn=read_or_fallback_spec,
                          params=dict(quick=dict(kl=2, nkeys=2, vmax=1), thorough=dict(kl=2, nkeys=2, vmax=2)),
                          witnesses=["overlay", "fallthrough", "pre-error", "huge"],
                          bound=dict(quick="key length <=2, <=2 proposed keys (any words, values of 0..2 words incl. deletion), count 0..2 and any count > 2^40, values of 0..1 words, pre-state uninterpreted (values or an error)",
                                     thorough="values of 0..2 words"),
                          replay=dict(kind="check_overlay")),
    "set_mutations_unique": dict(props=["C04", "C16"], crates=CR, fn=set_mutations_unique,
                          params=dict(quick=dict(smax=3, mmax=2, kl=1), thorough=dict(smax=3, mmax=2, kl=2)),
                          witnesses=["accepted", "rejected"],
                          bound=dict(quick="1..3 solutions over 2 contracts, <=2 mutations each, keys of 0..1 symbolic words", thorough="keys of 0..2 words"),
                          replay=dict(kind="check_set")),
    "computed_mutations": dict(props=["C16", "C06"], crates=CR, fn=computed_mutations, params=dict(quick=dict(nw=5), thorough=dict(nw=7)),
                          witnesses=["ok", "err"],
                          bound=dict(quick="1..2 data-output memories of <=5 symbolic words, 0..1 declared mutation", thorough="<=7 words"),
                          replay=dict(kind="check_computed")),
    "validators_limits": dict(props=["C16"], crates=CR, fn=validators_limits, witnesses=["ok", "rejected"],
                          bound_text="every pair of the six limits at limit-1 / limit / limit+1 / 0, the others at a valid baseline (lengths are concrete: the validators only measure them)",
                          replay=dict(kind="check_set")),
    "predicate_limits": dict(props=["C16", "C17", "C18"], crates=CR, fn=predicate_limits, witnesses=["ok", "rejected"],
                          bound_text="nodes/edges in {0,999,1000,1001}, predicates in {0,1,99,100,101}, the oversized predicate at any position",
                          replay=dict(kind="check_set")),
}
