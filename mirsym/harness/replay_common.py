from nativereplay import sw


def seq(model, prefix, bits=64, signed=True):
    out, i = [], 0
    while f"{prefix}{i}" in model:
        v = model[f"{prefix}{i}"]
        out.append(sw(v, bits) if signed else v & ((1 << bits) - 1)); i += 1
    return out


def trace_val(ce, key, default=0):
    for t in ce.get("trace") or []:
        if t.startswith(key + "="):
            return int(t.split("=", 1)[1])
    return default


def panic_judge(what):
    def judge(out):
        if "panic" in out: return True, "real code panics: " + out["panic"][:200]
        if "crash" in out: return True, "real code crashed: " + out["crash"][:200]
        return False, "real code does not panic: " + str(out)[:200]
    return judge
