"""data-output memories realised by leaf programs: ALOC n; STO each word; PUSH 2"""
from replay_common import *


def mem_prog(ws):
    ops = [f"Stack::Push:{len(ws)}", "Memory::Alloc:0", "Stack::Pop:0"]
    for a, w in enumerate(ws): ops += [f"Stack::Push:{w}", f"Stack::Push:{a}", "Memory::Store:0"]
    return ";".join(ops + ["Stack::Push:2"])


def ref_decode(ws):
    """reference decoding of one memory: list of (key, value) or None"""
    if not ws or ws[0] < 0: return None
    if ws[0] == 0: return []
    out, i = [], 1
    while i < len(ws):
        b = ws[i:]
        if len(b) < 2 or b[0] < 0 or len(b) <= 1 + b[0]: return None
        k = b[0]; v = b[1 + k]
        if v < 0 or len(b) < 2 + k + v: return None
        out.append((tuple(b[1:1 + k]), tuple(b[2 + k:2 + k + v]))); i += 2 + k + v
    return out


def prepare(rp, ce, params):
    m = ce.get("model") or {}
    declared = trace_val(ce, "declared") == 1
    dk = seq(m, "dk") or [0]
    nmem = 1 + trace_val(ce, "memories")
    mems = []
    for k in range(nmem):
        n = trace_val(ce, f"mem{k}_len")
        ws = seq(m, f"m{k}_")
        mems.append((ws + [0] * n)[:n])
    sol0 = f"1,10,,{'[' + str(dk[0]) + '|4]' if declared else ''}"
    fields = dict(kind="check_leaves", n=str(nmem), solutions=sol0 + " // 1,11,,")
    for k, ws in enumerate(mems): fields[f"prog{k}"] = mem_prog(ws)

    def judge(out):
        if "panic" in out: return True, "real code panics: " + out["panic"][:200]
        if out.get("result") != "ok": return False, "real check rejects the set: " + out.get("err", "")[:120]
        keys = [x.strip("[]").split("|")[0].strip() for x in out.get("mutations0", "").split(";") if x]
        if len(set(keys)) != len(keys): return True, f"real two-pass check returns a set with duplicate keys in solution 0: {keys}"
        return False, f"real result has distinct keys {keys}"
    return fields, judge
