"""C20: StdLock::apply.  (M) the real MIR of apply is executed with the std Mutex modelled as a lock object that
logs its events: the closure must run while the lock is held, on the protected data itself, and the guard must be
released exactly once, after the closure and before apply returns.  (S) the interleaving of several threads each
running that event sequence is then the symbolic variable of an SMT problem under the Mutex axioms."""
import z3
from session import *      # noqa
from h_vmops import AND, OR, NOT


def one_apply(I, h, calls=2):
    """`calls` consecutive applies on one lock (single thread): event trace of each call"""
    E = I.E
    I.event_log = []
    init = E.sym_int("init", "i64")
    lock = h.call("lock", "new", [init])
    mutex = lock.cells[0].v
    traces = []
    cur = init
    for k in range(calls):
        start = len(I.event_log)
        delta = E.sym_int(f"delta{k}", "i64")

        def body(I_, arg, _k=k, _delta=delta):
            I_.event_log.append(("body_begin", mutex.cells[1].v))
            if not isinstance(arg, Ref) or arg.cell is not mutex.cells[0]:
                raise Violation("the closure is not given the data protected by the lock", E.model_for())
            v = arg.cell.v
            I_.event_log.append(("read",))
            nv = int_binop("Add", v, _delta)
            arg.cell.v = nv
            I_.event_log.append(("write",))
            I_.event_log.append(("body_end", mutex.cells[1].v))
            return nv
        r = h.call("lock", "apply", [h.ref(lock), PyFn(body, "closure")])
        ev = I.event_log[start:]
        kinds = [e[0] for e in ev]
        if kinds != ["lock", "body_begin", "read", "write", "body_end", "unlock"]:
            raise Violation(f"event order of apply is {kinds}", E.model_for(), dict(events=kinds))
        if ev[1][1] is not True or ev[4][1] is not True: raise Violation("closure runs while the lock is not held", E.model_for())
        cur = int_binop("Add", cur, delta)
        check(E, b_not(int_binop("Eq", r, cur)), "apply does not return the closure's value")
        check(E, b_not(int_binop("Eq", mutex.cells[0].v, cur)), "an update is lost")
        if mutex.cells[1].v is not False: raise Violation("lock still held after apply returned", E.model_for())
        traces.append(kinds)
    # (S) schedules: threads x calls, timestamps symbolic
    res = schedules(traces[0], threads=3, calls_per_thread=2)
    if res is not None: raise Violation("schedule encoder: " + res, E.model_for())
    return "ok"


def reentrant(I, h):
    """applying the same lock from inside its own closure is the documented deadlock: the model reports it;
    non-reentrant use (above) never blocks"""
    E = I.E
    I.event_log = []
    lock = h.call("lock", "new", [Int("i64", 0)])

    def inner(I_, arg): return Int("i64", 1)

    def outer(I_, arg):
        return h.call("lock", "apply", [h.ref(lock), PyFn(inner, "inner")])
    try:
        h.call("lock", "apply", [h.ref(lock), PyFn(outer, "outer")])
    except Panic as p:
        if "deadlock" in str(p): return "deadlock-detected"
        raise
    raise Violation("re-entrant apply did not block: the closure ran without exclusive access", E.model_for())


def schedules(events, threads=3, calls_per_thread=2):
    """SMT over interleavings.  Every call contributes the event sequence extracted from the MIR run.
    Mutex axiom: two lock..unlock sections of the same mutex never overlap.  Returns None if neither
    overlapping closure bodies nor a lost update is satisfiable."""
    s = z3.Solver()
    calls = [(t, c) for t in range(threads) for c in range(calls_per_thread)]
    T = {(t, c, e): z3.Int(f"t_{t}_{c}_{e}") for (t, c) in calls for e in events}
    allv = list(T.values())
    s.add(z3.Distinct(*allv))
    for (t, c) in calls:
        for a, b in zip(events, events[1:]): s.add(T[(t, c, a)] < T[(t, c, b)])
        if c + 1 < calls_per_thread: s.add(T[(t, c, events[-1])] < T[(t, c + 1, events[0])])
    for i, a in enumerate(calls):
        for b in calls[i + 1:]:
            s.add(z3.Or(T[a + ("unlock",)] < T[b + ("lock",)], T[b + ("unlock",)] < T[a + ("lock",)]))
    # query 1: two closure bodies overlap
    s.push()
    s.add(z3.Or(*[z3.And(T[a + ("body_begin",)] < T[b + ("body_end",)], T[b + ("body_begin",)] < T[a + ("body_end",)])
                  for i, a in enumerate(calls) for b in calls[i + 1:]]))
    r1 = s.check()
    s.pop()
    if r1 != z3.unsat: return "two closures can run at the same time"
    # query 2: lost update (read-modify-write of +1 each)
    n = len(calls)
    rv = {a: z3.Int(f"rv_{a[0]}_{a[1]}") for a in calls}
    for a in calls:
        cands = []
        for b in calls:
            if b == a: continue
            latest = z3.And(T[b + ("write",)] < T[a + ("read",)],
                            *[z3.Not(z3.And(T[b + ("write",)] < T[c + ("write",)], T[c + ("write",)] < T[a + ("read",)])) for c in calls if c not in (a, b)])
            cands.append((latest, rv[b] + 1))
        none_before = z3.And(*[T[b + ("write",)] > T[a + ("read",)] for b in calls if b != a])
        s.add(z3.Or(z3.And(none_before, rv[a] == 0), *[z3.And(l, rv[a] == v) for l, v in cands]))
    fin = z3.Int("final")
    for a in calls:
        is_last = z3.And(*[T[b + ("write",)] < T[a + ("write",)] for b in calls if b != a])
        s.add(z3.Implies(is_last, fin == rv[a] + 1))
    s.add(fin != n)
    r2 = s.check()
    if r2 != z3.unsat: return "an update can be lost (final counter != number of calls)"
    return None


HARNESSES = {
    "apply_trace": dict(props=["C20"], crates=["lock"], fn=one_apply, params=dict(quick=dict(calls=2), thorough=dict(calls=3)), witnesses=["ok"],
        bound=dict(quick="2 consecutive applies (symbolic data and increments) + schedule encoder: 3 threads x 2 calls, interleaving symbolic; std::sync::Mutex axiomatised",
                   thorough="3 consecutive applies"),
        replay=dict(kind="lock_stress", timeout_is_failure=True)),
    "reentrant": dict(props=["C20"], crates=["lock"], fn=reentrant, witnesses=["deadlock-detected"],
        bound_text="apply nested in its own closure on the same lock (the only way to block)", replay=dict(kind="lock_stress", timeout_is_failure=True)),
}
