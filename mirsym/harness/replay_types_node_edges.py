from replay_common import *
from replay_types_roundtrip import model_predicate


def prepare(rp, ce, params):
    m = ce.get("model") or {}
    nn = trace_val(ce, "nodes", 0)
    ixs = list(range(nn + 1)) + [(1 << 64) - 1]
    ix = ixs[trace_val(ce, "ix", 0)]
    pf = model_predicate(m)
    fields = dict(kind="types_node_edges", ix=str(ix), **pf)
    ess = [int(n.split(":")[0]) for n in pf["nodes"].split(";") if n]
    edges = [int(e) for e in pf["edges"].split()]

    def ref():
        if ix >= len(ess): return None
        if ess[ix] == 0xFFFF: return []
        end = len(edges)
        if ix + 1 < len(ess) and ess[ix + 1] != 0xFFFF: end = ess[ix + 1]
        if ess[ix] <= end <= len(edges): return edges[ess[ix]:end]
        return None

    def judge(out):
        if "panic" in out: return True, "real code panics: " + out["panic"][:200]
        exp = ref()
        got = None if out.get("result") == "none" else [int(e) for e in out.get("edges", "").split()]
        return (got != exp), f"real={got} documented={exp}"
    return fields, judge
