"""Realises the nondeterministic-op model of the exec loop by a real program where that is possible:
ordinary ops = Push(k) with cost from the model; a ComputeResult = Compute with n children each running
one Push whose cost is cgas/n."""
from replay_common import *


def prepare(rp, ce, params):
    m = ce.get("model") or {}
    limit = m.get("limit", 0)
    pc0 = trace_val(ce, "pc0", 0)
    if pc0 != 0: return None, "start pc other than 0 is not realised by the replay program"
    ops, costs, k = [], {}, 0
    kind_costs = {}
    exact = 0
    while True:
        res = None
        for t in ce.get("trace") or []:
            if t.startswith(f"res{k}="): res = int(t.split("=")[1])
        if res is None: break
        c = m.get(f"cost{k}", 0)
        if res == 0:
            ops.append(f"Stack::Push:{100 + k}"); costs[100 + k] = c
            exact += c
        elif res == 4:
            cg = m.get(f"cgas{k}", 0)
            n = next((n for n in (1, 2, 3, 4) if cg % n == 0 and cg // n <= limit), None)
            if n is None: return None, "child gas of the model cannot be split into children that each respect the limit"
            # [Push n (cost c handled by Compute op), Compute, Push 7 (cost cg/n), ComputeEnd]
            ops += [f"Stack::Push:{n}", "Compute::Compute:0", f"Stack::Push:{700 + k}", "Compute::ComputeEnd:0"]
            costs[n] = 0; costs[700 + k] = cg // n
            kind_costs["Compute(Compute)"] = c
            exact += c + cg          # Push n costs 0, ComputeEnd costs 0 (default), children cg in total
            break
        else:
            return None, f"op result kind {res} of the model is not realised by the replay program"
        k += 1
    fields = dict(kind="vm_prog", ops=";".join(ops), costs=" ".join(f"{a}:{b}" for a, b in costs.items()),
                  kind_costs=" ".join(f"{a}={b}" for a, b in kind_costs.items()), default_cost="0", limit=str(limit), stack="", memory="")

    only_push = all(o.startswith("Stack::Push:") for o in ops)

    def judge(out):
        if "panic" in out: return True, "real code panics: " + out["panic"][:200]
        if only_push:
            # exact reference: an op is charged BEFORE it runs; the first op that does not fit stops the run without any effect
            spent, done = 0, []
            for j, o in enumerate(ops):
                w = int(o.rsplit(":", 1)[1]); c = costs[w]
                if spent + c > limit or spent + c >= 2**64:
                    st = [int(x) for x in out.get("stack", "").split()]
                    bad = out.get("result") != "err" or out.get("err_index") != str(j) or "OutOfGas" not in out.get("err", "") or st != done
                    return bad, f"op {j} (cost {c}) does not fit after {spent} of {limit}: expected OutOfGas at op {j} with stack {done}; real: {out.get('result')} index {out.get('err_index')} stack {st} {out.get('err', '')[:60]}"
                spent += c; done.append(w)
        if out.get("result") == "ok":
            g = int(out["gas"])
            if g > limit: return True, f"real Vm::exec returns Ok({g}) above the total limit {limit}"
            if g != exact: return True, f"real Vm::exec returns Ok({g}) but the executed operations cost {exact} in total"
            return False, f"real gas {g} = exact sum, within limit {limit}"
        return False, "real code returns an error: " + out.get("err", "")[:120]
    return fields, judge
