"""C09 / C05 / C07: control flow, repeat state machine, evaluation result and the exec loop's gas
accounting, from the MIR of essential-vm."""
import re
import z3
from session import *      # noqa
from h_vmops import AND, OR, NOT, W, ge0, eqc, words_eq, wide

USZ = "usize"


def pcf(v):
    """(kind, payload) of an Option<ProgramControlFlow>"""
    if v.variant == "None": return ("none", None)
    x = v.cells[0].v
    return (x.variant, x.cells[0].v if x.cells else None)


def tcf(I, h, ns=4):
    """JumpIf / HaltIf / PanicIf / Halt from any stack <= ns words and any pc"""
    E = I.E
    opn = ["JumpIf", "HaltIf", "PanicIf", "Halt"][E.choose(4, "op")]
    slen = E.choose(ns + 1, "slen")
    S = h.words("s", slen)
    pc = E.sym_int("pc", USZ)
    st = h.stack(list(S))
    r = h.call("vm", "step_op_total_control_flow", [h.enum("asm", "op::TotalControlFlow", opn), h.ref(st), pc])
    ok_ = r.variant == "Ok"
    cells = st.cells[0].v.cells
    if opn == "Halt":
        if not ok_ or pcf(r.cells[0].v)[0] != "Halt": raise Violation("Halt does not halt", E.model_for())
        words_eq(E, cells, S, "stack")
        return "halt"
    need = 2 if opn == "JumpIf" else 1
    if slen < need:
        if ok_: raise Violation("Ok with too few operands", E.model_for())
        return "err-too-few"
    cond = S[-1]
    cond01 = OR(eqc(cond, 0), eqc(cond, 1))
    if opn == "HaltIf":
        if not ok_:
            check(E, cond01, "HaltIf fails on a 0/1 condition"); return "err"
        check(E, NOT(cond01), "HaltIf accepts a condition other than 0/1")
        k = pcf(r.cells[0].v)[0]
        check(E, NOT(b_eq(eqc(cond, 1), k == "Halt")), "HaltIf halts iff condition is 1")
        if k not in ("Halt", "none"): raise Violation("HaltIf returns " + k, E.model_for())
        words_eq(E, cells, S[:-1], "stack")
        return "ok"
    if opn == "PanicIf":
        if ok_:
            check(E, NOT(eqc(cond, 0)), "PanicIf succeeds although the condition is not 0")
            words_eq(E, cells, S[:-1], "stack")
            return "ok"
        e = r.cells[0].v
        inner = e.cells[0].v if e.cells else None
        if isinstance(inner, EnumV) and inner.variant == "Panic":
            check(E, NOT(eqc(cond, 1)), "PanicIf panics although the condition is not 1")
            got = [c.v for c in stdmodels.as_slice(inner.cells[0].v).cells()]
            from h_types import ints_eq
            ints_eq(E, got, S[:-1], "stack reported by PanicIf")
            return "panic"
        check(E, cond01, "PanicIf reports an invalid condition for 0/1")
        return "err"
    # JumpIf: [.., dist, cond]
    dist = S[-2]
    tgt = z3.ZeroExt(8, pc.z3()) + z3.SignExt(8, dist.z3())            # 72-bit exact pc + dist
    inr = AND(b_norm(tgt >= 0), b_norm(tgt <= z3.BitVecVal((1 << 64) - 1, 72)))
    valid = AND(cond01, OR(eqc(cond, 0), AND(NOT(eqc(dist, 0)), inr)))
    if not ok_:
        check(E, valid, "JumpIf fails although condition is 0/1, distance non-zero and target representable")
        return "err"
    check(E, NOT(valid), "JumpIf succeeds on an invalid condition / zero distance / unrepresentable target")
    k, pay = pcf(r.cells[0].v)
    words_eq(E, cells, S[:-2], "stack")
    if k == "none":
        check(E, NOT(eqc(cond, 0)), "JumpIf does not jump although the condition is 1")
        return "no-jump"
    if k != "Pc": raise Violation("JumpIf returns " + k, E.model_for())
    check(E, NOT(eqc(cond, 1)), "JumpIf jumps although the condition is 0")
    check(E, b_norm(z3.ZeroExt(8, pay.z3()) != tgt), "JumpIf target is not pc + distance")
    return "jump"


# ------------------------------------------------------------------ repeat
def mk_slot(h, counter, up, limit, index):
    d = h.enum("vm", "repeat::Direction", "Up", limit) if up else h.enum("vm", "repeat::Direction", "Down")
    return Agg("Slot", [Cell(counter), Cell(d), Cell(index)])


def sym_repeat(I, h, depth):
    E = I.E
    slots, model = [], []
    for i in range(depth):
        up = bool(E.choose(2, f"up{i}"))
        c, l, ix = E.sym_int(f"c{i}", "i64"), E.sym_int(f"l{i}", "i64"), E.sym_int(f"ri{i}", USZ)
        slots.append(mk_slot(h, c, up, l, ix)); model.append((c, up, l, ix))
    return Agg("Repeat", [Cell(h.vec(slots))]), model


def slot_fields(s):
    d = s.cells[1].v
    return s.cells[0].v, d.variant == "Up", (d.cells[0].v if d.cells else None), s.cells[2].v


def repeat_sm(I, h, dmax=2, ns=3):
    """Repeat / RepeatEnd / RepeatCounter as one step of a state machine from an ARBITRARY repeat stack"""
    E = I.E
    opn = ["Repeat", "RepeatEnd", "RepeatCounter"][E.choose(3, "op")]
    depth = E.choose(dmax + 1, "depth")
    rep, model = sym_repeat(I, h, depth)
    slen = E.choose(ns + 1, "slen")
    S = h.words("s", slen)
    st = h.stack(list(S))
    pc = E.sym_int("pc", USZ)
    if opn == "RepeatCounter":
        r = h.call("vm", "step_op_access", [Agg("Access", [Cell(Ptr(Cell(h.vec([])), "arc")), Cell(Int(USZ, 0))]),
                                            h.enum("asm", "op::Access", "RepeatCounter"), h.ref(st), h.ref(rep),
                                            h.ref(Agg("LazyCache", [Cell(Agg("OnceLock", [Cell(h.none())]))]))])
        if depth == 0:
            if r.variant == "Ok": raise Violation("RepeatCounter succeeds without a loop", E.model_for())
            return "err"
        if r.variant != "Ok": raise Violation("RepeatCounter fails inside a loop", E.model_for())
        words_eq(E, st.cells[0].v.cells, S + [model[-1][0]], "stack")
        return "ok"
    r = h.call("vm", "step_op_stack", [h.enum("asm", "op::Stack", opn), pc, h.ref(st), h.ref(rep)])
    slots = rep.cells[0].v.cells
    ok_ = r.variant == "Ok"
    if opn == "RepeatEnd":
        if depth == 0:
            if ok_: raise Violation("RepeatEnd succeeds without a loop", E.model_for())
            return "err"
        if not ok_: raise Violation("RepeatEnd fails inside a loop", E.model_for())
        words_eq(E, st.cells[0].v.cells, S, "stack")
        c, up, l, ix = model[-1]
        k, pay = pcf(r.cells[0].v)
        if up:
            lim1 = mk_int("i64", z3.If(l.z3() == z3.BitVecVal(-(1 << 63), 64), l.z3(), l.z3() - 1))   # saturating limit-1
            done = int_binop("Ge", c, lim1)
        else:
            done = int_binop("Le", c, W(1))
        if k == "none":
            check(E, NOT(done), "loop ends although repeats remain")
            if len(slots) != depth - 1: raise Violation("finished loop is not popped from the repeat stack", E.model_for())
            return "done"
        check(E, done, "loop repeats although the counter reached its end")
        if k != "Pc" or len(slots) != depth: raise Violation("RepeatEnd: wrong control flow / repeat stack", E.model_for())
        check(E, NOT(int_binop("Eq", pay, ix)), "RepeatEnd does not jump to the registered loop start")
        nc, nup, nl, nix = slot_fields(slots[-1].v)
        want = int_binop("Add", c, W(1)) if up else int_binop("Sub", c, W(1))
        check(E, NOT(int_binop("Eq", nc, want)), "counter not advanced by one in the loop's direction")
        check(E, NOT(int_binop("Eq", nix, ix)), "loop start changed")
        # frame: slots below untouched
        for j in range(depth - 1):
            a, b = slot_fields(slots[j].v), model[j]
            check(E, NOT(AND(int_binop("Eq", a[0], b[0]), int_binop("Eq", a[3], b[3]))), "outer loop state changed")
        return "again"
    # Repeat: [.., num_repeats, count_up]
    if slen < 2:
        if ok_: raise Violation("Repeat with too few operands succeeds", E.model_for())
        return "err-too-few"
    n, up_w = S[-2], S[-1]
    valid = AND(OR(eqc(up_w, 0), eqc(up_w, 1)), NOT(int_binop("Eq", pc, Int(USZ, (1 << 64) - 1))))
    if not ok_:
        check(E, valid, "Repeat fails on valid operands"); return "err"
    check(E, NOT(valid), "Repeat accepts an invalid direction / overflowing pc")
    if pcf(r.cells[0].v)[0] != "none" or len(slots) != depth + 1: raise Violation("Repeat: wrong control flow / repeat stack", E.model_for())
    words_eq(E, st.cells[0].v.cells, S[:-2], "stack")
    nc, nup, nl, nix = slot_fields(slots[-1].v)
    check(E, NOT(b_eq(eqc(up_w, 1), nup)), "counting direction differs from the operand")
    check(E, NOT(int_binop("Eq", nix, int_binop("Add", pc, Int(USZ, 1)))), "loop start is not the op after Repeat")
    if nup:
        check(E, NOT(AND(eqc(nc, 0), int_binop("Eq", nl, n))), "counting up must start at 0 with limit n")
    else:
        check(E, NOT(int_binop("Eq", nc, n)), "counting down must start at n")
    return "pushed"


def repeat_limit(I, h):
    """the repeat stack refuses the 4097th entry"""
    E = I.E
    depth = [4095, 4096][E.choose(2, "depth")]
    slots = [mk_slot(h, W(1), False, None, Int(USZ, 0)) for _ in range(depth)]
    rep = Agg("Repeat", [Cell(h.vec(slots))])
    st = h.stack([E.sym_int("n", "i64"), W(E.choose(2, "up"))])
    r = h.call("vm", "step_op_stack", [h.enum("asm", "op::Stack", "Repeat"), Int(USZ, 0), h.ref(st), h.ref(rep)])
    n = len(rep.cells[0].v.cells)
    if n > 4096: raise Violation("repeat stack grew beyond 4096 entries", E.model_for())
    if (r.variant == "Ok") != (depth < 4096): raise Violation("Repeat at the limit: wrong verdict", E.model_for())
    return "full" if depth == 4096 else "room"


# ------------------------------------------------------------------ exec loop with a nondeterministic op
class NondetOp:
    """model of sync::step_op: any control-flow result an operation could produce"""

    def __init__(self, I, h):
        self.I, self.h, self.calls = I, h, []

    def __call__(self, I, callee, args, fr):
        E, h = I.E, self.h
        k = len(self.calls)
        vm = stdmodels.deref(args[2])
        self.calls.append(vm.cells[0].v)           # pc at the time of the call
        c = E.choose(6, f"res{k}")
        self.kinds = getattr(self, "kinds", []) + [c]
        en = "total_control_flow::ProgramControlFlow"
        if c == 0: return h.ok(h.none())
        if c == 1: return h.ok(h.some(h.enum("vm", en, "Pc", E.sym_int(f"npc{k}", USZ))))
        if c == 2: return h.ok(h.some(h.enum("vm", en, "Halt")))
        if c == 3: return h.ok(h.some(h.enum("vm", en, "ComputeEnd")))
        if c == 4:
            t = Agg(None, [Cell(E.sym_int(f"cpc{k}", USZ)), Cell(E.sym_int(f"cgas{k}", "u64")), Cell(E.sym_bool(f"chalt{k}"))])
            self.cgas = getattr(self, "cgas", []) + [t.cells[1].v]
            return h.ok(h.some(h.enum("vm", en, "ComputeResult", t)))
        return h.err(h.enum("vm", "error::OpError", "PcOverflow"))


def setup_exec(I):
    """bindings of the generic parameters of Vm::exec for the harnesses below: OA = &[Op], cost = PyFn"""
    def op_access(I_, callee, args, fr):
        for f in I_.P.by_last["vm"].get("op_access", []):
            if f.params and f.params[0][1].replace(" ", "") == "&&[Op]":
                return I_.run_fn(f, [Ref(Cell(args[0])) if not isinstance(args[0], Ref) else args[0], args[1]])
        raise Unmodelled("OpAccess impl for &[Op] not found")
    I.overrides.append((re.compile(r"as OpAccess>::op_access"), op_access))
    I.overrides.append((re.compile(r"as OpGasCost>::op_gas_cost"), lambda I_, c, a, fr: I_.call_value(a[0], [a[1]])))
    I.overrides.append((re.compile(r"<OA as Clone>::clone"), lambda I_, c, a, fr: stdmodels.deref(a[0])))


def mk_vm(h, pc, stack=(), memory=()):
    return Agg("Vm", [Cell(pc), Cell(h.stack(list(stack))), Cell(h.memory(list(memory))), Cell(h.vec([])), Cell(False),
                      Cell(Agg("Repeat", [Cell(h.vec([]))])), Cell(Ptr(Cell(Agg("LazyCache", [Cell(Agg("OnceLock", [Cell(h.none())]))])), "arc"))])


def exec_gas(I, h, nops=3, steps=3):
    """Vm::exec against a nondeterministic op: gas = exact sum of the costs of the executed ops (+ child gas),
    never above the limit; OutOfGas before the op has any effect; error index = pc of the failing op"""
    E = I.E
    setup_exec(I)
    nd = NondetOp(I, h)
    I.overrides.append((re.compile(r"(^|::)step_op::<"), nd))
    costs = []

    def cost(I_, opref):
        g = E.sym_int(f"cost{len(costs)}", "u64")
        costs.append(g)
        return g
    limit = E.sym_int("limit", "u64")
    pc0 = Int(USZ, E.choose(nops + 1, "pc0"))
    vm = mk_vm(h, pc0)
    ops = h.vec([h.enum("asm", "op::Op", "Stack", h.enum("asm", "op::Stack", "Pop")) for _ in range(nops)])
    access = Agg("Access", [Cell(Ptr(Cell(h.vec([])), "arc")), Cell(Int(USZ, 0))])
    gl = Agg("GasLimit", [Cell(Int("u64", 4096)), Cell(limit)])
    # bound the number of loop iterations: later iterations are cut (assume) - stated bound
    budget = {"n": 0}
    orig = nd.__call__

    def limited(I_, callee, args, fr):
        if len(nd.calls) >= steps: raise Infeasible()
        return NondetOp.__call__(nd, I_, callee, args, fr)
    I.overrides[-1] = (I.overrides[-1][0], limited)
    r = h.call("vm", "vm::Vm::exec", [h.ref(vm), access, h.ref(Agg("State", [])), SliceRef(ops, 0, nops), h.ref(PyFn(cost, "cost")), gl])
    # ghost sum: 64-bit partial sums, each addition separately required not to wrap
    n_exec = len(nd.calls)
    terms = [g.z3() for g in costs[:n_exec]] + [g.z3() for g in getattr(nd, "cgas", [])]
    tot = z3.BitVecVal(0, 64)
    no_wrap = []
    for t in terms:
        no_wrap.append(z3.BVAddNoOverflow(tot, t, False))
        tot = tot + t
    if r.variant == "Ok":
        g = r.cells[0].v
        for k, nw in enumerate(no_wrap):
            check(E, b_norm(z3.Not(nw)), "the sum of the gas of the executed operations (incl. compute children) overflows u64")
        check(E, b_norm(g.z3() != tot), "reported gas is not the sum of the costs of the executed operations")
        check(E, b_norm(z3.UGT(g.z3(), limit.z3())), "reported gas exceeds the total limit")
        return "ok"
    err = r.cells[0].v                      # ExecError(pc, OpError)
    epc, oe = err.cells[0].v, err.cells[1].v
    if oe.variant == "OutOfGas":
        if len(costs) == n_exec and nd.kinds and nd.kinds[-1] == 4:
            # compute children: their gas is only known after they ran; it must really not fit
            tb = z3.BitVecVal(0, 64)
            for t in terms[:-1]: tb = tb + t
            over = z3.Or(z3.Not(z3.BVAddNoOverflow(tb, terms[-1], False)), z3.UGT(tb + terms[-1], limit.z3()))
            check(E, b_norm(z3.Not(over)), "OutOfGas after Compute although the children's gas fits into the limit")
            return "out-of-gas"
        # the op whose cost did not fit was not executed: one more cost call than step_op calls
        if len(costs) != n_exec + 1: raise Violation("OutOfGas reported after the operation was executed", E.model_for())
        c = costs[-1].z3()
        over = z3.Or(z3.Not(z3.BVAddNoOverflow(tot, c, False)), z3.UGT(tot + c, limit.z3()))
        check(E, b_norm(z3.Not(over)), "OutOfGas although the next operation fits into the limit")
        return "out-of-gas"
    # op error: index must be the pc at which the failing op was fetched
    check(E, NOT(int_binop("Eq", epc, nd.calls[-1])), "error index is not the index of the failing operation")
    return "op-error"


def eval_result(I, h):
    """Vm::eval: true/false iff the final stack top is 1/0, error otherwise"""
    E = I.E
    slen = E.choose(3, "slen")
    S = h.words("s", slen)
    setup_exec(I)
    vm = mk_vm(h, Int(USZ, 0), S)
    ops = h.vec([])
    access = Agg("Access", [Cell(Ptr(Cell(h.vec([])), "arc")), Cell(Int(USZ, 0))])
    gl = Agg("GasLimit", [Cell(Int("u64", 4096)), Cell(Int("u64", (1 << 64) - 1))])
    r = h.call("vm", "vm::Vm::eval", [h.ref(vm), SliceRef(ops, 0, 0), access, h.ref(Agg("State", [])),
                                     h.ref(PyFn(lambda I_, o: Int("u64", 1), "cost")), gl])
    if slen == 0:
        if r.variant == "Ok": raise Violation("eval of an empty stack succeeds", E.model_for())
        return "err"
    top = S[-1]
    if r.variant == "Ok":
        b = r.cells[0].v
        check(E, NOT(OR(AND(eqc(top, 1), b), AND(eqc(top, 0), b_not(b)))), "eval result does not match the stack top")
        return "ok"
    check(E, OR(eqc(top, 0), eqc(top, 1)), "eval fails although the stack top is 0/1")
    return "err"


CR = ["types", "asm", "vm"]
HARNESSES = {
    "tcf": dict(props=["C09", "C05"], crates=CR, fn=tcf, params=dict(quick=dict(ns=4), thorough=dict(ns=6)),
                witnesses=["halt", "jump", "no-jump", "err", "panic", "ok", "err-too-few"],
                bound=dict(quick="JumpIf/HaltIf/PanicIf/Halt, stack <=4 words any i64 (distance incl. 0, i64::MIN/MAX), pc any usize", thorough="stack <=6"),
                replay=dict(kind="vm_tcf")),
    "repeat_sm": dict(props=["C09", "C05"], crates=CR, fn=repeat_sm, params=dict(quick=dict(dmax=2, ns=3), thorough=dict(dmax=3, ns=4)),
                      witnesses=["done", "again", "pushed", "err", "ok", "err-too-few"],
                      bound=dict(quick="one Repeat/RepeatEnd/RepeatCounter step from an arbitrary repeat stack of <=2 slots (any counter, limit, direction, start index), stack <=3, pc any usize",
                                 thorough="<=3 slots, stack <=4"),
                      replay=dict(kind="vm_repeat")),
    "repeat_limit": dict(props=["C05", "C09"], crates=CR, fn=repeat_limit, witnesses=["full", "room"],
                         bound_text="repeat stack of 4095 / 4096 entries, any count, both directions", replay=dict(kind="vm_repeat_limit")),
    "exec_gas": dict(heavy=True, props=["C07", "C05", "C08"], crates=CR, fn=exec_gas, params=dict(quick=dict(nops=2, steps=2), thorough=dict(nops=3, steps=3)),
                     witnesses=["ok", "out-of-gas", "op-error"],
                     bound=dict(quick="Vm::exec on a 2-op program from any pc, step_op replaced by a nondeterministic op (None/Pc(any)/Halt/ComputeEnd/ComputeResult(any)/Err), any cost per op, any limit, <=2 loop iterations",
                                thorough="3 ops, <=3 iterations"),
                     replay=dict(kind="vm_exec_gas")),
    "eval_result": dict(props=["C09"], crates=CR, fn=eval_result, witnesses=["ok", "err"], bound_text="final stack of 0..2 words, any values",
                        replay=dict(kind="vm_eval")),
}
