"""C11 / C12 / C05: state-read ops, access ops and hashing ops of essential-vm from MIR; the state and the
SHA-256 primitive are uninterpreted."""
import re
import z3
from session import *      # noqa
from h_vmops import AND, OR, NOT, W, ge0, eqc, words_eq, wide
from h_types import ints_eq, seq_vals
from h_check import addr

I64 = "i64"


def be_words_of_bytes(bs):
    """[u8; 8k] (Ints) -> k words (big endian)"""
    return [mk_int(I64, z3.Concat(*[b.z3() for b in bs[i:i + 8]])) if not all(b.concrete for b in bs[i:i + 8])
            else Int(I64, int.from_bytes(bytes(b.v for b in bs[i:i + 8]), "big")) for i in range(0, len(bs), 8)]


def word_bytes(w):
    return [mk_int("u8", z3.Extract(63 - 8 * k, 56 - 8 * k, w.z3())) for k in range(8)]


# ------------------------------------------------------------------ state reads
class Views:
    def __init__(self, I, h, rmax, vmax):
        self.I, self.h, self.rmax, self.vmax, self.calls = I, h, rmax, vmax, []

    def pre(self, I, c, a, fr): return Ref(Cell(Agg("PreView", [])))
    def post(self, I, c, a, fr): return Ref(Cell(Agg("PostView", [])))

    def key_range(self, I, callee, args, fr):
        E, h = I.E, self.h
        view = stdmodels.deref(args[0]).name
        contract = [c.v for c in stdmodels.deref(args[1]).cells[0].v.cells]
        key = seq_vals(args[2])
        self.calls.append((view, contract, key, args[3]))
        if E.choose(2, "state_err"):
            return h.err(Opaque("StateError", 77))
        r = E.choose(self.rmax + 1, "n_returned")
        vals = []
        for j in range(r):
            ln = E.choose(self.vmax + 1, f"ret{j}_len")
            vals.append(h.words(f"ret{j}_", ln))
        self.vals = vals
        return h.ok(h.vec([h.vec(list(v)) for v in vals]))


def state_read(I, h, kl=2, nm=6, rmax=2, vmax=2):
    E = I.E
    opn = ["KeyRange", "KeyRangeExtern", "PostKeyRange", "PostKeyRangeExtern"][E.choose(4, "op")]
    ext = opn.endswith("Extern")
    nbelow = E.choose(2, "below")
    nkey = E.choose(kl + 1, "key_words")
    nmiss = E.choose(2, "short")              # 1: one stack word too few for the operands
    below = h.words("b", nbelow)
    extw = h.words("x", 4) if ext else []
    keyw = h.words("k", nkey)
    klen, cnt, ad = E.sym_int("klen", I64), E.sym_int("count", I64), E.sym_int("addr", I64)
    S = below + extw + keyw + [klen, cnt, ad]
    if nmiss: S = S[1:] if S else S
    mlen = E.choose(nm + 1, "mlen")
    Mw = h.words("m", mlen)
    st, mem = h.stack(list(S)), h.memory(list(Mw))
    v = Views(I, h, rmax, vmax)
    I.overrides += [(re.compile(r"as StateReads>::pre$"), v.pre), (re.compile(r"as StateReads>::post$"), v.post),
                    (re.compile(r"StateRead>::key_range$"), v.key_range)]
    solved = addr(h, 9)
    r = h.call("vm", "step_op_state_reads", [h.enum("asm", "op::StateRead", opn), h.ref(solved), h.ref(Agg("State", [])), h.ref(st), h.ref(mem)])
    ok_ = r.variant == "Ok"
    n = len(S)
    # operand validity: [.. (ext4) key.. , klen, count, addr]
    if n < 3:
        if ok_: raise Violation("Ok with fewer than three operand words", E.model_for())
        return "err-operands"
    klen_, cnt_, ad_ = S[-3], S[-2], S[-1]
    avail = n - 3
    ops_ok = AND(ge0(ad_), ge0(cnt_), ge0(klen_), int_binop("Le", klen_, W(avail)))
    if not v.calls:
        # no request was made: operands must have been invalid (or the ext address was missing)
        if ok_: raise Violation("Ok without asking the state", E.model_for())
        if ext:
            check(E, AND(ops_ok, b_norm(wide(klen_) + 4 <= z3.BitVecVal(avail, 72))), "valid operands rejected without a state request")
        else:
            check(E, ops_ok, "valid operands rejected without a state request")
        return "err-operands"
    check(E, NOT(ops_ok), "state was asked although the operands are invalid")
    view, contract, key, count = v.calls[0]
    if len(v.calls) != 1: raise Violation("more than one state request", E.model_for())
    if (view == "PostView") != opn.startswith("Post"): raise Violation(f"{opn} asks the {view}", E.model_for())
    kk = E.concretize(klen_, cap=8, label="klen")
    words_below = S[:avail - kk]
    ints_eq(E, key, S[avail - kk:avail], "requested key")
    check(E, NOT(int_binop("Eq", count, Int("usize", 0) if False else mk_int("usize", cnt_.z3()) if not cnt_.concrete else Int("usize", cnt_.v))), "requested count differs from the operand")
    if ext:
        if len(words_below) < 4: raise Violation("external read without 4 address words", E.model_for())
        want = []
        for w in words_below[-4:]: want += word_bytes(w)
        ints_eq(E, contract, want, "external contract address")
        rest = words_below[:-4]
    else:
        ints_eq(E, contract, [Int("u8", 9)] + [Int("u8", 0)] * 31, "contract address of the solved predicate")
        rest = words_below
    if not hasattr(v, "vals"):
        if ok_ or r.cells[0].v.variant != "StateRead": raise Violation("state error not returned as OpError::StateRead", E.model_for())
        if r.cells[0].v.cells[0].v.payload != 77: raise Violation("state error changed", E.model_for())
        return "state-error"
    vals = v.vals
    total = 2 * len(vals) + sum(len(x) for x in vals)
    # nothing is written when the state returns no value at all, whatever the address
    fits = True if not vals else b_norm(wide(ad_) + total <= z3.BitVecVal(mlen, 72))
    if not ok_:
        check(E, fits, "Err although the returned values fit into the allocated memory")
        return "err-fit"
    check(E, NOT(fits), "Ok although the values do not fit into memory")
    exp = list(Mw)
    a0 = E.concretize(ad_, cap=mlen + 2, label="addr") if vals else 0
    va = a0 + 2 * len(vals)
    for i, x in enumerate(vals):
        exp[a0 + 2 * i] = W(va); exp[a0 + 2 * i + 1] = W(len(x))
        for j, w in enumerate(x): exp[va + j] = w
        va += len(x)
    words_eq(E, mem.cells[0].v.cells, exp, "memory")
    words_eq(E, st.cells[0].v.cells, rest, "stack")
    return "ok"


# ------------------------------------------------------------------ access ops
def mk_access(h, sols, index):
    return Agg("Access", [Cell(Ptr(Cell(h.vec(sols)), "arc")), Cell(Int("usize", index))])


def sym_solution(I, h, tag, smax, wmax):
    E = I.E
    ns = E.choose(smax + 1, f"{tag}_slots")
    slots = []
    for s in range(ns):
        nw = E.choose(wmax + 1, f"{tag}_s{s}_len")
        slots.append(h.words(f"{tag}_s{s}_", nw))
    cb = [E.sym_int(f"{tag}_c{i}", "u8") for i in range(32)]
    pb = [E.sym_int(f"{tag}_p{i}", "u8") for i in range(32)]
    sol = Agg("Solution", [Cell(Agg("PredicateAddress", [Cell(Agg("ContentAddress", [Cell(h.vec(cb, "array"))])),
                                                          Cell(Agg("ContentAddress", [Cell(h.vec(pb, "array"))]))])),
                           Cell(h.vec([h.vec(list(x)) for x in slots])), Cell(h.vec([]))])
    return sol, slots, cb, pb


def access_ops(I, h, smax=2, wmax=2, ns=4):
    E = I.E
    opn = ["PredicateData", "PredicateDataLen", "PredicateDataSlots", "ThisAddress", "ThisContractAddress"][E.choose(5, "op")]
    nsol = 1 + E.choose(2, "solutions")
    sols = [sym_solution(I, h, f"sol{k}", smax if k == 0 else 1, wmax) for k in range(nsol)]
    idx = E.choose(nsol, "index")
    # the solution being checked gets the full symbolic shape
    if idx != 0: sols[0], sols[idx] = sols[idx], sols[0]; idx = 0
    this = sols[idx]
    slen = E.choose(ns + 1, "slen")
    S = h.words("s", slen)
    st = h.stack(list(S))
    rep = Agg("Repeat", [Cell(h.vec([]))])
    cache = Agg("LazyCache", [Cell(Agg("OnceLock", [Cell(h.none())]))])
    r = h.call("vm", "step_op_access", [mk_access(h, [s[0] for s in sols], idx), h.enum("asm", "op::Access", opn), h.ref(st), h.ref(rep), h.ref(cache)])
    ok_ = r.variant == "Ok"
    slots = this[1]
    cells = st.cells[0].v.cells
    if opn in ("ThisAddress", "ThisContractAddress"):
        if not ok_: raise Violation(opn + " fails", E.model_for())
        words_eq(E, cells, S + be_words_of_bytes(this[3] if opn == "ThisAddress" else this[2]), "stack")
        return "ok"
    if opn == "PredicateDataSlots":
        if not ok_: raise Violation("PredicateDataSlots fails", E.model_for())
        words_eq(E, cells, S + [W(len(slots))], "stack")
        return "ok"
    if opn == "PredicateDataLen":
        if slen < 1:
            if ok_: raise Violation("Ok without operand", E.model_for())
            return "err"
        sx = S[-1]
        valid = AND(ge0(sx), int_binop("Lt", sx, W(len(slots))))
        if not ok_: check(E, valid, "PredicateDataLen fails for a slot in range"); return "err"
        check(E, NOT(valid), "PredicateDataLen succeeds for a slot out of range")
        k = E.concretize(sx, cap=8)
        words_eq(E, cells, S[:-1] + [W(len(slots[k]))], "stack")
        return "ok"
    # PredicateData: [slot_ix, value_ix, len]
    if slen < 3:
        if ok_: raise Violation("Ok with too few operands", E.model_for())
        return "err"
    sx, vx, ln = S[-3], S[-2], S[-1]
    valid = False
    for k, sl in enumerate(slots):
        valid = OR(valid, AND(eqc(sx, k), ge0(vx), ge0(ln), b_norm(wide(vx) + wide(ln) <= z3.BitVecVal(len(sl), 72))))
    if not ok_: check(E, valid, "PredicateData fails for a range inside the slot"); return "err"
    check(E, NOT(valid), "PredicateData succeeds for a slot / range out of bounds")
    k = E.concretize(sx, cap=8); a = E.concretize(vx, cap=8); n = E.concretize(ln, cap=8)
    words_eq(E, cells, S[:-3] + slots[k][a:a + n], "stack")
    return "ok"


# ------------------------------------------------------------------ hashing
def sha256_op(I, h, nwords=3):
    """Sha256 op: [data words.., byte_len] -> 4 hash words; the hasher sees exactly the first byte_len bytes of
    the ceil(byte_len/8) words popped"""
    E = I.E
    I.hash_log = []
    nb = E.choose(2, "below")
    nd = E.choose(nwords + 1, "data_words")
    below, data = h.words("b", nb), h.words("d", nd)
    bl = E.sym_int("byte_len", I64)
    S = below + data + [bl]
    st = h.stack(list(S))
    r = h.call("vm", "step_op_crypto", [h.enum("asm", "op::Crypto", "Sha256"), h.ref(st)])
    avail = nb + nd
    need_words = lambda n: (n + 7) // 8
    valid = AND(ge0(bl), b_norm(wide(bl) + 7 <= z3.BitVecVal(8 * avail + 7, 72)))
    # exact: ceil(bl/8) <= avail
    valid = AND(ge0(bl), int_binop("Le", bl, W(8 * avail)))
    if r.variant != "Ok":
        check(E, valid, "Sha256 fails although enough data words are present")
        return "err"
    check(E, NOT(valid), "Sha256 succeeds although the data is shorter than byte_len")
    n = E.concretize(bl, cap=8 * avail + 2, label="byte_len")
    k = need_words(n)
    if len(I.hash_log) != 1: raise Violation("hasher not fed exactly once", E.model_for())
    fed = I.hash_log[0]
    allw = below + data
    src = allw[len(allw) - k:]
    want = []
    for w in src: want += word_bytes(w)
    want = want[:n]
    ints_eq(E, fed, want, "bytes given to SHA-256")
    # result = the 32 digest bytes as 4 big-endian words on top of the untouched words
    digest = colls.sha256_model(I, want)
    I.hash_log.pop()
    words_eq(E, st.cells[0].v.cells, allw[:len(allw) - k] + be_words_of_bytes(digest), "stack")
    return "ok"


def predicate_exists(I, h, smax=2, wmax=2):
    """PredicateExists: 1 iff the popped 4 words equal SHA-256(len-prefixed slots ‖ contract ‖ predicate) of some solution"""
    E = I.E
    I.hash_log = []
    nsol = 1 + E.choose(2, "solutions")
    sols = [sym_solution(I, h, f"sol{k}", smax if k == 0 else 1, wmax) for k in range(nsol)]
    hw = h.words("h", 4)
    below = h.words("b", E.choose(2, "below"))
    st = h.stack(list(below) + list(hw))
    rep = Agg("Repeat", [Cell(h.vec([]))])
    cache = Agg("LazyCache", [Cell(Agg("OnceLock", [Cell(h.none())]))])
    r = h.call("vm", "step_op_access", [mk_access(h, [s[0] for s in sols], 0), h.enum("asm", "op::Access", "PredicateExists"), h.ref(st), h.ref(rep), h.ref(cache)])
    if r.variant != "Ok": raise Violation("PredicateExists fails with 4 operand words", E.model_for())
    if len(I.hash_log) != nsol: raise Violation("not exactly one hash per solution", E.model_for())
    found = False
    popped = []
    for w in hw: popped += word_bytes(w)
    for (sol, slots, cb, pb), fed in zip(sols, I.hash_log):
        want = []
        for sl in slots:
            want += word_bytes(W(len(sl)))
            for w in sl: want += word_bytes(w)
        want += cb + pb
        ints_eq(E, fed, want, "pre-image hashed for a solution")
        dg = colls.sha256_model(I, want); I.hash_log.pop()
        found = OR(found, AND(*[int_binop("Eq", a, b) for a, b in zip(popped, dg)]))
    out = st.cells[0].v.cells
    if len(out) != len(below) + 1: raise Violation("PredicateExists: wrong stack length", E.model_for())
    check(E, NOT(b_eq(eqc(out[-1].v, 1), found)), "PredicateExists result differs from 'some solution hashes to the given words'")
    check(E, NOT(OR(eqc(out[-1].v, 0), eqc(out[-1].v, 1))), "result is not 0/1")
    return "ok"


def views_pair(I, h):
    """the (pre, post) pair handed to the VM: `pre()` is its first component, `post()` its second; a pre-state read op therefore
    reaches the first, a post-state read op the second"""
    E = I.E
    a, b = Agg("ViewA", [Cell(Int("u8", 1))]), Agg("ViewB", [Cell(Int("u8", 2))])
    pair = Agg(None, [Cell(a), Cell(b)])
    fs = [f for f in I.P.by_last["vm"].get("pre", []) + I.P.by_last["vm"].get("post", []) if f.params and f.params[0][1].replace(" ", "") == "&(S,P)"]
    got = {}
    for f in fs:
        r = I.run_fn(f, [h.ref(pair)])
        got[f.name.rsplit("::", 1)[-1]] = stdmodels.deref(r)
    if set(got) != {"pre", "post"}: raise Unmodelled("impl StateReads for (S, P) not found in the MIR of the vm crate")
    if got["pre"] is not a: raise Violation("pre() of the (pre, post) pair is not its first component", E.model_for(), dict(which="pre"))
    if got["post"] is not b: raise Violation("post() of the (pre, post) pair is not its second component", E.model_for(), dict(which="post"))
    return "ok"


CR = ["types", "asm", "vm"]
HARNESSES = {
    "views_pair": dict(props=["C03", "C11"], crates=CR, fn=views_pair, witnesses=["ok"],
        bound_text="impl StateReads for (S, P): two distinguishable components",
        replay=dict(kind="vm_views")),
    "state_read": dict(props=["C11", "C05", "C03"], crates=CR, fn=state_read,
        params=dict(quick=dict(kl=2, nm=5, rmax=2, vmax=1), thorough=dict(kl=2, nm=7, rmax=2, vmax=2)),
        witnesses=["ok", "err-operands", "state-error", "err-fit"],
        bound=dict(quick="the four read ops; key of 0..2 words, key_len/count/addr any i64, 0..1 words below, memory 0..5 words, state returns an error or 0..2 values of 0..1 words independent of the count",
                   thorough="memory 0..7 words, values of 0..2 words"),
        replay=dict(kind="vm_state_read")),
    "access_ops": dict(props=["C12", "C05"], crates=CR, fn=access_ops, params=dict(quick=dict(smax=2, wmax=2, ns=4), thorough=dict(smax=3, wmax=2, ns=4)),
        witnesses=["ok", "err"],
        bound=dict(quick="PredicateData/Len/Slots, ThisAddress, ThisContractAddress; 1..2 solutions, checked solution with 0..2 slots of 0..2 symbolic words and symbolic 32-byte addresses; operands any i64", thorough="0..3 slots"),
        replay=dict(kind="vm_access")),
    "sha256_op": dict(props=["C12", "C05"], crates=CR, fn=sha256_op, params=dict(quick=dict(nwords=2), thorough=dict(nwords=3)), witnesses=["ok", "err"],
        bound=dict(quick="0..2 data words, byte_len any i64 (so every byte length 0..16 incl. non-multiples of 8); SHA-256 uninterpreted", thorough="0..3 data words"),
        replay=dict(kind="crypto_roundtrip", differential=True)),
    "predicate_exists": dict(props=["C12"], crates=CR, fn=predicate_exists, params=dict(quick=dict(smax=1, wmax=1), thorough=dict(smax=2, wmax=2)), witnesses=["ok"],
        bound=dict(quick="1..2 solutions, 0..1 slots of 0..1 words, symbolic addresses and hash words; SHA-256 uninterpreted (equal inputs give equal digests)", thorough="0..2 slots of 0..2 words"),
        replay=dict(kind="vm_pex")),
}
