def prepare(rp, ce, params):
    return None, "not replayed"
