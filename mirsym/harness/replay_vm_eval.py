from replay_common import *


def prepare(rp, ce, params):
    m = ce.get("model") or {}
    S = (seq(m, "s") + [0] * 4)[:trace_val(ce, "slen")]
    fields = dict(kind="vm_eval", stack=" ".join(map(str, S)), ops="")

    def judge(out):
        if "panic" in out: return True, "real code panics: " + out["panic"][:200]
        want = None if (not S or S[-1] not in (0, 1)) else (S[-1] == 1)
        got = None if out.get("result") != "ok" else (out.get("value") == "true")
        return got != want, f"final stack {S}: documented result {'error' if want is None else want}, real {'error' if got is None else got} {out.get('err', '')[:80]}"
    return fields, judge
