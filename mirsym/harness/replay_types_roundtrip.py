from replay_common import *


def model_predicate(m):
    nodes, i = [], 0
    while f"es{i}" in m:
        addr = [m.get(f"a{i}_{j}", 0) & 255 for j in range(32)]
        nodes.append(f"{m[f'es{i}'] & 0xFFFF}:" + " ".join(map(str, addr))); i += 1
    edges = seq(m, "e", 16, False)
    return dict(nodes=";".join(nodes), edges=" ".join(map(str, edges)))


def prepare(rp, ce, params):
    m = ce.get("model") or {}
    if rp["fn"] == "predicate":
        fields = dict(kind="types_roundtrip", fn="predicate", **model_predicate(m))

        def judge(out):
            if "panic" in out: return True, "real code panics: " + out["panic"][:200]
            if out.get("result") != "ok": return True, "real encode fails: " + str(out)[:200]
            if out.get("roundtrip_equal") != "true": return True, "real decode(encode(p)) != p"
            if out.get("encoded_len") != out.get("encoded_size"):
                return True, f"real encoded_size()={out.get('encoded_size')} but the encoding has {out.get('encoded_len')} bytes"
            return False, "real round trip and size agree"
        return fields, judge
    # mutations
    ms, i = [], 0
    while any(k.startswith(f"k{i}_") or k.startswith(f"v{i}_") for k in m) or i < trace_val(ce, "n_mut", 0):
        ms.append("[" + " ".join(map(str, seq(m, f"k{i}_"))) + "|" + " ".join(map(str, seq(m, f"v{i}_"))) + "]"); i += 1
    fields = dict(kind="types_roundtrip", fn="mutations", mutations=";".join(ms))

    def judge2(out):
        if "panic" in out: return True, "real code panics: " + out["panic"][:200]
        if out.get("roundtrip_equal") != "true": return True, "real decode(encode(ms)) != ms"
        return False, "real round trip holds"
    return fields, judge2
