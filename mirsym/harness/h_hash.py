"""C17 / C04: content addresses of essential-hash from MIR with SHA-256 uninterpreted: what is hashed."""
import z3
from session import *      # noqa
from h_vmops import AND, OR, NOT
from h_types import ints_eq, seq_vals, sym_predicate, be16


SYM_POS = (0, 5, 31)      # symbolic byte positions (first, inside, last); the other bytes are zero


def sym_addr(I, h, tag):
    E = I.E
    bs = [E.sym_int(f"{tag}_{i}", "u8") if i in SYM_POS else Int("u8", 0) for i in range(32)]
    return Agg("ContentAddress", [Cell(h.vec(bs, "array"))]), bs


def lex_le(a, b):
    """lexicographic a <= b over byte lists (z3)"""
    A = z3.Concat(*[x.z3() for x in a]); B = z3.Concat(*[x.z3() for x in b])
    return b_norm(z3.ULE(A, B))


def addrs_canonical(I, h, nmax=3):
    """from_predicate_addrs_slice / from_solution_addrs_slice: the bytes hashed are the given addresses in ascending
    order (a permutation of the input, hence independent of its order) followed by the salt"""
    E = I.E
    I.hash_log = []
    contract = bool(E.choose(2, "with_salt"))
    n = E.choose(nmax + 1, "n")
    addrs = [sym_addr(I, h, f"a{k}") for k in range(n)]
    v = h.vec([a for a, _ in addrs])
    salt = [E.sym_int(f"salt_{i}", "u8") for i in range(2)] + [Int("u8", 0)] * 30
    via_iter = bool(E.choose(2, "via_iterator"))
    if contract:
        if via_iter:
            r = h.call("hash", "from_predicate_addrs", [Iter("owned", cells=list(v.cells), i=0), h.ref(h.vec(list(salt), "array"))])
        else:
            r = h.call("hash", "from_predicate_addrs_slice", [SliceRef(v, 0, n), h.ref(h.vec(list(salt), "array"))])
    else:
        if via_iter:
            r = h.call("hash", "from_solution_addrs", [Iter("owned", cells=list(v.cells), i=0)])
        else:
            r = h.call("hash", "from_solution_addrs_slice", [SliceRef(v, 0, n)])
    if len(I.hash_log) != 1: raise Violation("hasher not fed exactly once", E.model_for())
    fed = I.hash_log[0]
    want_len = 32 * n + (32 if contract else 0)
    if len(fed) != want_len: raise Violation(f"pre-image has {len(fed)} bytes, expected {want_len}", E.model_for())
    chunks = [fed[32 * k:32 * k + 32] for k in range(n)]
    # permutation of the inputs (by term identity) ...
    used = set()
    for ch in chunks:
        hit = None
        for k, (_, bs) in enumerate(addrs):
            if k in used: continue
            if all((x.concrete and y.concrete and x.v == y.v) or (not x.concrete and not y.concrete and x.v.eq(y.v)) for x, y in zip(ch, bs)):
                hit = k; break
        if hit is None: raise Violation("a hashed chunk is not one of the given addresses", E.model_for())
        used.add(hit)
    # ... in ascending order
    for a, b in zip(chunks, chunks[1:]):
        check(E, NOT(lex_le(a, b)), "hashed addresses are not in ascending order (address depends on the input order)")
    if contract: ints_eq(E, fed[32 * n:], salt, "salt appended to the pre-image")
    return "ok"


def address_plumbing(I, h):
    """Address for Predicate = SHA-256(encode_predicate), for Program = SHA-256(bytes), for Contract = from_contract =
    from_predicate_addrs(addresses of its predicates, salt); over-limit predicates are out of scope"""
    E = I.E
    I.hash_log = []
    nn = E.choose(2, "nodes"); ne = E.choose(2, "edges")
    p, ess, addrs, edges = sym_predicate(I, h, nn, ne, short_addr=True)
    a1 = h.call("hash", "<Predicate as Address>::content_address", [h.ref(p)])
    exp = be16(Int("u16", nn))
    for es, ab in zip(ess, addrs): exp += be16(es) + ab
    exp += be16(Int("u16", ne))
    for e in edges: exp += be16(e)
    ints_eq(E, I.hash_log[-1], exp, "pre-image of a predicate address")
    a2 = h.call("hash", "content_addr", [h.ref(p)]) if False else None
    # program
    nb = E.choose(3, "prog_len")
    pb = [E.sym_int(f"pb{i}", "u8") for i in range(nb)]
    prog = Agg("Program", [Cell(h.vec(list(pb)))])
    h.call("hash", "<Program as Address>::content_address", [h.ref(prog)])
    ints_eq(E, I.hash_log[-1], pb, "pre-image of a program address")
    # contract: one predicate + salt
    salt = [E.sym_int(f"salt_{i}", "u8") for i in range(2)] + [Int("u8", 0)] * 30
    contract = Agg("Contract", [Cell(h.vec([p])), Cell(h.vec(list(salt), "array"))])
    n0 = len(I.hash_log)
    c1 = h.call("hash", "<Contract as Address>::content_address", [h.ref(contract)])
    pre1 = I.hash_log[-1]
    c2 = h.call("hash", "from_contract", [h.ref(contract)])
    pre2 = I.hash_log[-1]
    ints_eq(E, pre1, pre2, "Contract::content_address and from_contract hash different bytes")
    pa = seq_vals(a1.cells[0].v)
    ints_eq(E, pre1, pa + salt, "contract pre-image is not predicate address ‖ salt")
    return "ok"


CR = ["types", "hash"]
HARNESSES = {
    "addrs_canonical": dict(props=["C17", "C04", "C19"], crates=CR, fn=addrs_canonical, params=dict(quick=dict(nmax=3), thorough=dict(nmax=4)), witnesses=["ok"],
        bound=dict(quick="0..3 addresses (bytes 0, 5 and 31 symbolic, so equal addresses and addresses differing only late are inside), slice and iterator constructors, with and without salt; SHA-256 uninterpreted", thorough="0..4 addresses"),
        replay=dict(kind="hash_addrs")),
    "address_plumbing": dict(props=["C17"], crates=CR, fn=address_plumbing, witnesses=["ok"],
        bound_text="predicate of 0..1 nodes / 0..1 edges, program of 0..2 bytes, contract of one predicate with symbolic salt; SHA-256 uninterpreted",
        replay=dict(kind="hash_solution_diff", differential=True)),
}
