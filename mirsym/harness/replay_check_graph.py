"""Native replay for the graph scheduler: real programs realise the uninterpreted runner.
non-leaf node i: drops its inputs and pushes the token i; flagged nodes first perform an (empty) post-state
read; a leaf compares its input stack with the tokens of its parents (EqRange) and so ends with [1]
exactly when it was given the outputs of all its parents in ascending order."""
from replay_common import *


def kids_of(ess, edges, n):
    kids = {}
    for i in range(n):
        if ess[i] == 0xFFFF: kids[i] = []; continue
        end = len(edges)
        if i + 1 < n and ess[i + 1] != 0xFFFF: end = ess[i + 1]
        if not (ess[i] <= end <= len(edges)): return None
        kids[i] = edges[ess[i]:end]
    return kids


def prepare(rp, ce, params):
    m = ce.get("model") or {}
    n = 1 + trace_val(ce, "nodes", 0)
    ne = trace_val(ce, "edges", 0)
    ess = [m.get(f"es{i}", 0) & 0xFFFF for i in range(n)]
    edges = [m.get(f"e{j}", 0) & 0xFFFF for j in range(ne)]
    flags = [bool(m.get(f"d{i}", False)) for i in range(n)]
    special = kind = None
    sp = trace_val(ce, "special", 0)
    if sp: special, kind = (sp - 1) // 3, ["err", "false", "data"][(sp - 1) % 3]
    kids = kids_of(ess, edges, n)
    expect_ok = None
    if special is not None and kind != "err" and kids is not None and kids.get(special) != []:
        special = kind = None
    parents = {i: [] for i in range(n)}
    if kids is not None and all(c < n for i in kids for c in kids[i]):
        for p in range(n):
            for c in kids[p]: parents[c].append(p)
        # acyclic?
        indeg = {i: len(parents[i]) for i in range(n)}
        left = dict(indeg); order = []
        while left:
            lvl = [i for i, d in left.items() if d == 0]
            if not lvl: break
            for i in lvl:
                order.append(i)
                for c in kids[i]:
                    if c in left: left[c] -= 1
                del left[i]
        expect_ok = (len(order) == n) and not (special is not None and kind in ("err", "false"))
        if len(order) != n: expect_ok = False
    elif kids is None:
        expect_ok = False
    else:
        return None, "dangling edge target: only totality is claimed, nothing to replay"
    fields = dict(kind="check_graph", n=str(n), edge_starts=" ".join(map(str, ess)), edges=" ".join(map(str, edges)),
                  collect_all=str(trace_val(ce, "collect_all", 0)))
    post_read = "Stack::Push:0;Stack::Push:0;Stack::Push:0;StateRead::PostKeyRange:0;"
    for i in range(n):
        ps = sorted(parents[i])
        prog = post_read if flags[i] else ""
        leaf = kids is not None and kids.get(i) == []
        if special == i and kind == "err":
            prog += "Stack::Pop:0;Stack::Pop:0;Stack::Pop:0;Stack::Pop:0;Stack::Pop:0;Stack::Pop:0"   # pops an empty stack
        elif leaf:
            if ps:
                prog += "".join(f"Stack::Push:{1000 + p};" for p in ps) + f"Stack::Push:{len(ps)};Pred::EqRange:0"
            else:
                prog += "Stack::Push:1"
            if special == i and kind == "false": prog += ";Pred::Not:0"
            # data output: final stack [2]; its memory must decode as a (here empty) list of mutations: one word 0
            if special == i and kind == "data": prog += ";Stack::Push:1;Alu::Add:0;Stack::Push:1;Memory::Alloc:0;Stack::Pop:0"
        else:
            prog += f"Stack::Push:{len(ps)};Stack::Drop:0;Stack::Push:{1000 + i}"
        fields[f"prog{i}"] = prog

    def judge(out):
        if "panic" in out: return True, "real code panics: " + out["panic"][:200]
        got_ok = out.get("result") == "ok"
        if "result" not in out: return False, "no result: " + str(out)[:200]
        if got_ok and expect_ok:
            # every op costs 1 and every node runs its straight-line program exactly once: the total is the number of ops
            want_gas = sum(len([o for o in fields[f"prog{i}"].split(";") if o.strip()]) for i in range(n))
            if out.get("gas") != str(want_gas):
                return True, f"gas reported {out.get('gas')}, the nodes' programs execute {want_gas} operations of cost 1"
        return (got_ok != expect_ok), f"reference semantics: {'accept' if expect_ok else 'reject'}; real two-pass check: {out.get('result')} {out.get('err', '')[:160]}"
    return fields, judge
