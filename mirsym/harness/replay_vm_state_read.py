from replay_common import *


def prepare(rp, ce, params):
    m = ce.get("model") or {}
    opn = ["KeyRange", "KeyRangeExtern", "PostKeyRange", "PostKeyRangeExtern"][trace_val(ce, "op")]
    ext = opn.endswith("Extern")
    below = (seq(m, "b") + [0])[:trace_val(ce, "below")]
    extw = (seq(m, "x") + [0] * 4)[:4] if ext else []
    keyw = (seq(m, "k") + [0] * 4)[:trace_val(ce, "key_words")]
    klen, cnt, ad = sw(m.get("klen", 0)), sw(m.get("count", 0)), sw(m.get("addr", 0))
    S = below + extw + keyw + [klen, cnt, ad]
    if trace_val(ce, "short"): S = S[1:]
    M = (seq(m, "m") + [0] * 16)[:trace_val(ce, "mlen")]
    if trace_val(ce, "state_err"): ret = "err"; vals = None
    else:
        vals = [(seq(m, f"ret{j}_") + [0] * 4)[:trace_val(ce, f"ret{j}_len")] for j in range(trace_val(ce, "n_returned"))]
        ret = ";".join(" ".join(map(str, v)) if v else "-" for v in vals)
    fields = dict(kind="vm_io", op="StateRead::" + opn, stack=" ".join(map(str, S)), memory=" ".join(map(str, M)), state_ret=ret,
                  sol0="none", contract0=" ".join(["9"] + ["0"] * 31), predicate0=" ".join(["0"] * 32))

    def ref():
        n = len(S)
        if n < 3: return None
        avail = n - 3
        if ad < 0 or cnt < 0 or klen < 0 or klen > avail: return None
        wb = S[:avail - klen]; key = S[avail - klen:avail]
        if ext:
            if len(wb) < 4: return None
            contract = [b for w in wb[-4:] for b in (w & (2**64 - 1)).to_bytes(8, "big")]; rest = wb[:-4]
        else:
            contract = [9] + [0] * 31; rest = wb
        req = ("post" if opn.startswith("Post") else "pre", contract, key, cnt)
        if vals is None: return ("staterr", req)
        total = 2 * len(vals) + sum(len(v) for v in vals)
        if vals and ad + total > len(M): return ("nofit", req)
        mem = list(M); va = ad + 2 * len(vals)
        for k, v in enumerate(vals):
            mem[ad + 2 * k] = va; mem[ad + 2 * k + 1] = len(v)
            mem[va:va + len(v)] = v; va += len(v)
        return ("ok", req, rest, mem)

    def judge(out):
        if "panic" in out: return True, "real code panics: " + out["panic"][:200]
        r = ref()
        got_ok = out.get("result") == "ok"
        reqs = [x for x in out.get("requests", "").split(";;") if x]
        if r is None:
            return (got_ok or bool(reqs)), f"invalid operands; real: {out.get('result')} requests={reqs}"
        tag, contract, key, cnt_ = r[1]
        want_req = f"{tag}|{' '.join(map(str, contract))}|{' '.join(map(str, key))}|{cnt_}"
        if reqs != [want_req]: return True, f"request real={reqs} specified={want_req}"
        if r[0] == "ok":
            st = [int(x) for x in out.get("stack", "").split()]; me = [int(x) for x in out.get("memory", "").split()]
            return (not got_ok or st != r[2] or me != r[3]), f"real stack={st} memory={me}; specified stack={r[2]} memory={r[3]}"
        return got_ok, f"specified: error ({r[0]}); real: {out.get('result')}"
    return fields, judge
