"""C01 (L3 node evaluation, L4 set level) / C03 (post-state construction): run_program, check_set_predicates and the
two-pass entry point from MIR with the layer below made uninterpreted."""
import re
import z3
from session import *      # noqa
from h_vmops import AND, OR, NOT, W, words_eq
from h_types import seq_vals, ints_eq, mk_mutation
from h_check import addr, paddr, mk_solution, mk_set, keys_equal

USZ = "usize"


# ------------------------------------------------------------------ L3: run_program
def run_program(I, h, pmax=2, wmax=2):
    """node evaluation: the VM starts from the concatenation of the parents' stacks and memories in the order given;
    a leaf ending with exactly [1] is satisfied, with exactly [2] outputs its memory, anything else is unsatisfied;
    a non-leaf hands on (stack, memory); gas and VM errors pass through; concatenation above the limits is an error"""
    E = I.E
    npar = E.choose(pmax + 1, "parents")
    big = E.choose(3, "big") if npar == 2 else 0          # 1: parent stacks sum above 4096, 2: memories above 10240
    parents, pst, pmem = [], [], []
    for k in range(npar):
        if big == 1: s = [W(0)] * 2049
        else: s = h.words(f"ps{k}_", E.choose(wmax + 1, f"ps{k}_len"))
        if big == 2: m = [W(0)] * 5121
        else: m = h.words(f"pm{k}_", E.choose(wmax + 1, f"pm{k}_len"))
        pst.append(s); pmem.append(m)
        parents.append(Ptr(Cell(Agg(None, [Cell(h.stack(list(s))), Cell(h.memory(list(m)))])), "arc"))
    leaf = bool(E.choose(2, "leaf"))
    seen = {}

    def exec_ops(I_, callee, args, fr):
        vm = stdmodels.deref(args[0])
        seen["stack"] = [c.v for c in vm.cells[1].v.cells[0].v.cells]
        seen["memory"] = [c.v for c in vm.cells[2].v.cells[0].v.cells]
        seen["pc"] = vm.cells[0].v
        k = E.choose(5, "vm_result")
        if k == 4:
            return h.err(Agg("ExecError", [Cell(Int(USZ, 3)), Cell(h.enum("vm", "error::OpError", "PcOverflow"))]))
        fin = [[W(1)], [W(2)], [W(0)], h.words("fs", 2)][k]
        fm = h.words("fm", E.choose(2, "fm_len"))
        vm.cells[1].v = h.stack(list(fin)); vm.cells[2].v = h.memory(list(fm))
        seen["fin"], seen["fm"], seen["gas"] = fin, fm, E.sym_int("gas", "u64")
        return h.ok(seen["gas"])
    I.overrides.append((re.compile(r"Vm::exec_ops::<"), exec_ops))
    prog = Ptr(Cell(Agg("Program", [Cell(h.vec([Int("u8", 0x02)]))])), "arc")
    sset = Ptr(Cell(mk_set(h, [mk_solution(h, 1, 10, [], [])])), "arc")
    ctx = Agg("ProgramCtx", [Cell(h.vec(parents)), Cell(leaf)])
    r = h.call("check", "run_program", [Agg("State", []), sset, Int("u16", 0), prog, ctx])
    if big:
        if r.variant != "Err": raise Violation("parent outputs above the stack / memory limit are accepted", E.model_for())
        want = "ParentStackConcatOverflow" if big == 1 else "ParentMemoryConcatOverflow"
        if r.cells[0].v.variant != want: raise Violation(f"limit error reported as {r.cells[0].v.variant}", E.model_for())
        return "err-limit"
    if "stack" not in seen: raise Violation("the program was not executed", E.model_for())
    ints_eq(E, seen["stack"], [w for s in pst for w in s], "initial stack = parents' stacks in order")
    ints_eq(E, seen["memory"], [w for m in pmem for w in m], "initial memory = parents' memories in order")
    if not (seen["pc"].concrete and seen["pc"].v == 0): raise Violation("VM does not start at pc 0", E.model_for())
    if "fin" not in seen:
        if r.variant != "Err" or r.cells[0].v.variant != "Vm": raise Violation("VM error not passed through", E.model_for())
        return "err-vm"
    if r.variant != "Ok": raise Violation("successful execution reported as error", E.model_for())
    out, gas = r.cells[0].v.cells[0].v, r.cells[0].v.cells[1].v
    check(E, b_not(int_binop("Eq", gas, seen["gas"])), "gas of the node is not the gas of its execution")
    fin, fm = seen["fin"], seen["fm"]
    if not leaf:
        if out.variant != "Parent": raise Violation("non-leaf does not hand on its state", E.model_for())
        t = out.cells[0].v.cell.v
        ints_eq(E, [c.v for c in t.cells[0].v.cells[0].v.cells], fin, "handed-on stack")
        ints_eq(E, [c.v for c in t.cells[1].v.cells[0].v.cells], fm, "handed-on memory")
        return "parent"
    if out.variant != "Leaf": raise Violation("leaf result is not a leaf output", E.model_for())
    po = out.cells[0].v
    if len(fin) == 1:
        is1, is2 = int_binop("Eq", fin[0], W(1)), int_binop("Eq", fin[0], W(2))
    else:
        is1 = is2 = False
    if po.variant == "DataOutput":
        check(E, NOT(is2), "data output although the stack is not exactly [2]")
        ints_eq(E, [c.v for c in po.cells[0].v.cells[0].v.cells[0].v.cells], fm, "reported data output = final memory")
        return "leaf-data"
    sat = po.cells[0].v
    check(E, is2, "stack [2] not reported as data output")
    check(E, NOT(b_eq(sat, is1)), "leaf satisfied iff the final stack is exactly [1]")
    return "leaf-bool"


# ------------------------------------------------------------------ L4: check_set_predicates
def set_level(I, h, smax=3):
    """per-solution results (uninterpreted) are combined: any failure -> PredicateErrors with ALL failing solution indices in
    ascending order; else total gas = saturating sum, data outputs attached to their solution, every cache written back to
    its own index"""
    E = I.E
    ns = 1 + E.choose(smax, "solutions")
    sols = [mk_solution(h, 1 + (s % 2), 10 + s, [], []) for s in range(ns)]
    sset = Ptr(Cell(mk_set(h, sols)), "arc")
    kinds, gases = [], []
    for s in range(ns):
        kinds.append(E.choose(3, f"res{s}"))            # 0 ok, 1 ok with data, 2 fail
        gases.append(E.sym_int(f"g{s}", "u64"))
    calls = []

    def check_predicate(I_, callee, args, fr):
        ix = args[4].v
        calls.append(ix)
        ctx = args[6]
        cache = ctx.cells[1].v.cell.v                     # &mut Cache
        colls.map_insert(I_, cache, Int("u16", 500 + ix), Ptr(Cell(Agg(None, [Cell(h.stack([])), Cell(h.memory([]))])), "arc"))
        if kinds[ix] == 2:
            return h.err(h.enum("check", "solution::PredicateError", "InvalidNodeEdges", Int(USZ, 40 + ix)))
        data = [h.enum("check", "solution::DataOutput", "Memory", h.memory([W(900 + ix)]))] if kinds[ix] == 1 else []
        return h.ok(Agg(None, [Cell(gases[ix]), Cell(h.vec(data))]))
    I.overrides.append((re.compile(r"(^|::)check_predicate::<"), check_predicate))
    I.overrides.append((re.compile(r"GetPredicate>::get_predicate"), lambda I_, c, a, fr: Ptr(Cell(Agg("Predicate", [Cell(h.vec([])), Cell(h.vec([]))])), "arc")))
    I.overrides.append((re.compile(r"as Clone>::clone$"), lambda I_, c, a, fr: (clone_val(stdmodels.deref(a[0])) if not isinstance(stdmodels.deref(a[0]), Ptr) else NotImplemented)))
    cache = Cell(MapV("hash"))
    cfg = Ptr(Cell(Agg("CheckPredicateConfig", [Cell(False)])), "arc")
    r = h.call("check", "check_set_predicates", [h.ref(Agg("State", [])), sset, Agg("GetPredicate", []), Agg("GetProgram", []), cfg,
                                                 h.enum("check", "solution::RunMode", "Outputs"), Ref(cache)])
    if sorted(calls) != list(range(ns)): raise Violation(f"solutions checked: {calls}", E.model_for())
    failing = [s for s in range(ns) if kinds[s] == 2]
    if failing:
        if r.variant != "Err" or r.cells[0].v.variant != "Failed": raise Violation("failing solutions not reported as PredicatesError::Failed", E.model_for())
        lst = stdmodels.as_slice(r.cells[0].v.cells[0].v.cells[0].v).cells()
        got = [c.v.cells[0].v.v for c in lst]
        if got != failing: raise Violation(f"failing solution indices {got}, expected {failing}", E.model_for())
        for c in lst:
            if c.v.cells[1].v.cells[0].v.v != 40 + c.v.cells[0].v.v: raise Violation("error attached to the wrong solution", E.model_for())
        return "failed"
    if r.variant != "Ok": raise Violation("all solutions pass but the set fails", E.model_for())
    outs = r.cells[0].v
    tot = None
    for g in gases:
        if tot is None: tot = g.z3()
        else:
            s_ = tot + g.z3()
            tot = z3.If(z3.ULT(s_, tot), z3.BitVecVal((1 << 64) - 1, 64), s_)
    check(E, b_not(int_binop("Eq", outs.cells[0].v, mk_int("u64", tot))), "total gas is not the saturating sum over the solutions")
    dfs = stdmodels.as_slice(outs.cells[1].v).cells()
    if len(dfs) != ns: raise Violation("not one data record per solution", E.model_for())
    for c in dfs:
        ix = c.v.cells[0].v.v
        d = stdmodels.as_slice(c.v.cells[1].v).cells()
        if (len(d) == 1) != (kinds[ix] == 1): raise Violation("data outputs attached to the wrong solution", E.model_for())
        if d and d[0].v.cells[0].v.cells[0].v.cells[0].v.v != 900 + ix: raise Violation("wrong data output for the solution", E.model_for())
    # caches: the entry written while checking solution i must be found under index i
    cm = cache.v
    for s in range(ns):
        hit = [c for k, c in cm.items if k.concrete and k.v == s]
        if len(hit) != 1: raise Violation(f"no cache for solution {s}", E.model_for())
        keys = [k.v for k, _ in hit[0].v.items]
        if keys != [500 + s]: raise Violation(f"cache of solution {s} holds {keys}", E.model_for())
    return "ok"


# ------------------------------------------------------------------ two-pass: construction of the post-state
def two_pass(I, h, smax=2, mmax=2):
    """the first pass sees an empty post-state, the second one exactly declared + computed mutations per contract; gas adds up"""
    E = I.E
    ns = 1 + E.choose(smax, "solutions")
    sols, decl = [], []
    for s in range(ns):
        ct = 1 + E.choose(2, f"contract{s}")
        nm = E.choose(mmax + 1, f"muts{s}")
        ms = []
        for j in range(nm):
            k, v = h.words(f"k{s}_{j}_", 1), h.words(f"v{s}_{j}_", E.choose(2, f"v{s}_{j}_len"))
            ms.append((ct, k, v))
        # keys of one contract pairwise different (validated sets, C04)
        sols.append(mk_solution(h, ct, 10 + s, [], [mk_mutation(h, list(k), list(v)) for _, k, v in ms]))
        decl += ms
    for a in range(len(decl)):
        for b in range(a + 1, len(decl)):
            if decl[a][0] == decl[b][0]: E.assume(NOT(keys_equal(decl[a][1], decl[b][1])))
    computed = (1, h.words("ck", 1), h.words("cv", 1)) if E.choose(2, "computed") else None
    if computed:
        for d in decl:
            if d[0] == computed[0] and sols[0].cells[0].v.cells[0].v.cells[0].v.cells[0].v.v == 1:
                E.assume(NOT(keys_equal(d[1], computed[1])))
    passes = []

    def inner(I_, callee, args, fr):
        state = stdmodels.deref(args[0])                 # &(S, PostStateArc<S>)
        first, second = state.cells[0].v, state.cells[1].v
        if not (isinstance(first, Agg) and first.name == "State") or not (isinstance(second, Agg) and (second.name or "").endswith("PostStateArc")):
            raise Violation(f"the per-pass check is not given (pre-state, post-state) in this order: ({getattr(first, 'name', first)}, {getattr(second, 'name', second)})", E.model_for())
        post = state.cells[1].v.cells[0].v.cell.v.cells[0].v   # PostStateArc.0 (Arc<PostState>) .state
        snapshot = [(k, [(seq_vals(kk), seq_vals(c.v)) for kk, c in inner_.v.items]) for k, inner_ in post.items]
        mode = args[5].variant
        passes.append((mode, snapshot))
        sset = args[1]
        g = E.sym_int(f"gas_{mode}", "u64")
        passes[-1] += (g,)
        if mode == "Outputs" and computed and sset.cells[0].v.cells[0].v.cells[0].v.cells[0].v.cells[0].v.cells[0].v.v == computed[0]:
            sset.cells[0].v.cells[0].v.cells[2].v.cells.append(Cell(mk_mutation(h, list(computed[1]), list(computed[2]))))
            passes[-1] += (True,)
        return h.ok(Agg(None, [Cell(g), Cell(sset)]))
    I.overrides.append((re.compile(r"(^|::)check_and_compute_solution_set::<"), inner))
    I.overrides.append((re.compile(r"as Clone>::clone$"), lambda I_, c, a, fr: (stdmodels.deref(a[0]) if isinstance(stdmodels.deref(a[0]), Agg) and stdmodels.deref(a[0]).name in ("State", "GetPredicate", "GetProgram") else NotImplemented)))
    cfg = Ptr(Cell(Agg("CheckPredicateConfig", [Cell(False)])), "arc")
    r = h.call("check", "check_and_compute_solution_set_two_pass", [h.ref(Agg("State", [])), mk_set(h, sols), Agg("GetPredicate", []), Agg("GetProgram", []), cfg])
    if [p[0] for p in passes] != ["Outputs", "Checks"]: raise Violation(f"passes run: {[p[0] for p in passes]}", E.model_for())
    if passes[0][1]: raise Violation("the first pass sees a non-empty post-state", E.model_for())
    applied = computed is not None and len(passes[0]) > 3
    want = {}
    for ct, k, v in decl + ([computed] if applied else []):
        want.setdefault(ct, []).append((k, v))
    snap = {k.cells[0].v.cells[0].v.v: ents for k, ents in passes[1][1]}
    if sorted(snap) != sorted(want): raise Violation(f"post-state contracts {sorted(snap)} != {sorted(want)}", E.model_for())
    for ct, ents in want.items():
        got = snap[ct]
        if len(got) != len(ents): raise Violation(f"contract {ct}: {len(got)} post-state entries, {len(ents)} mutations", E.model_for())
        for k, v in ents:
            hit = False
            for gk, gv in got:
                if E.branch(keys_equal(gk, k), "pk"):
                    ints_eq(E, gv, v, "post-state value")
                    hit = True
                    break
            if not hit: raise Violation("a mutation is missing from the post-state", E.model_for())
    if r.variant != "Ok": raise Violation("two-pass fails although both passes succeed", E.model_for())
    g1, g2 = passes[0][2].z3(), passes[1][2].z3()
    s_ = g1 + g2
    check(E, b_not(int_binop("Eq", r.cells[0].v.cells[0].v, mk_int("u64", z3.If(z3.ULT(s_, g1), z3.BitVecVal((1 << 64) - 1, 64), s_)))), "total gas is not the saturating sum of the passes")
    return "ok"



# ------------------------------------------------------------------ L2.5: the glue between the scheduler and run_program
def node_glue(I, h, N=2, NE=2):
    """check_predicate's per-node closure: node ix is run with the program stored under ITS program address, the parents it
    was given, the solution index of the call, and leaf = 'node ix has no outgoing edges' (an empty edge range, whatever its
    edge_start); the pair (ix, result of run_program) is handed back unchanged.  Scheduler and run_program are uninterpreted."""
    import h_graph
    E = I.E
    n = 1 + E.choose(N, "nodes")
    ne = E.choose(NE + 1, "edges")
    pred, ess, edges = h_graph.mk_pred(I, h, n, ne)
    six = E.sym_int("six", "u16")
    sset = Ptr(Cell(mk_set(h, [mk_solution(h, 1, 10, [], [])])), "arc")
    calls, rp_calls = [], []

    def inner(I_, callee, args, fr):
        run = args[0]
        for ix in range(n):
            r = h.call("types", "node_edges", [h.ref(pred), Int(USZ, ix)])
            if r.variant != "Some": continue
            par = h.vec([Ptr(Cell(Agg(None, [Cell(h.stack([W(7000 + ix)])), Cell(h.memory([]))])), "arc")])
            before = len(rp_calls)
            out = I_.call_value(run, [Int("u16", ix), par])
            calls.append((ix, par, len(r.cells[0].v) == 0, out, rp_calls[before:]))
        return h.ok(Agg(None, [Cell(Int("u64", 0)), Cell(h.vec([]))]))

    def run_prog(I_, callee, args, fr):
        tok = Opaque("run_program_result", len(rp_calls))
        rp_calls.append((args, tok))
        return tok

    def get_program(I_, callee, args, fr):
        a = stdmodels.deref(args[1])
        return Ptr(Cell(Agg("Program", [Cell(h.vec([a.cells[0].v.cells[0].v]))])), "arc")
    I.overrides.append((re.compile(r"(^|::)check_predicate_inner::<"), inner))
    I.overrides.append((re.compile(r"(^|::)run_program::<"), run_prog))
    I.overrides.append((re.compile(r"GetProgram>::get_program"), get_program))
    I.overrides.append((re.compile(r"as Clone>::clone$"), lambda I_, c, a, fr: (clone_val(stdmodels.deref(a[0])) if not isinstance(stdmodels.deref(a[0]), Ptr) else NotImplemented)))
    cache = Cell(MapV("hash"))
    ctx = Agg("Ctx", [Cell(h.enum("check", "solution::RunMode", "Outputs")), Cell(Ref(cache))])
    cfg = Agg("CheckPredicateConfig", [Cell(False)])
    r = h.call("check", "check_predicate", [h.ref(Agg("State", [])), sset, Ptr(Cell(pred), "arc"), Agg("GetProgram", []), six, h.ref(cfg), ctx])
    if r.variant != "Ok": raise Violation("check_predicate does not return the scheduler's result", E.model_for())
    for ix, par, is_leaf, out, rps in calls:
        gx = dict(node=ix, leaf=is_leaf)
        if len(rps) != 1: raise Violation(f"node {ix}: run_program called {len(rps)} times", E.model_for(), gx)
        args, tok = rps[0]
        if not (isinstance(out, Agg) and out.cells[0].v.concrete and out.cells[0].v.v == ix and out.cells[1].v is tok):
            raise Violation(f"node {ix}: the closure does not hand back (ix, result of run_program)", E.model_for(), gx)
        check(E, b_not(int_binop("Eq", args[2], six)), f"node {ix}: run with another solution index", gx)
        prog = args[3]
        while isinstance(prog, (Ptr, Ref)): prog = prog.cell.v
        pb = prog.cells[0].v.cells[0].v
        if not (pb.concrete and pb.v == ix): raise Violation(f"node {ix}: run with the program of another node", E.model_for(), gx)
        pctx = args[4]
        if stdmodels.deref(pctx.cells[0].v) is not stdmodels.deref(par) and not (
                [c.v for c in stdmodels.deref(pctx.cells[0].v).cells] == [c.v for c in stdmodels.deref(par).cells]): raise Violation(f"node {ix}: not run with the parents it was given", E.model_for(), gx)
        lf = pctx.cells[1].v
        if isinstance(lf, bool):
            if lf != is_leaf: raise Violation(f"node {ix} (edge range {'empty' if is_leaf else 'non-empty'}) is run with leaf = {lf}", E.model_for(), gx)
        else:
            check(E, b_not(b_eq(lf, is_leaf)), f"node {ix} (edge range {'empty' if is_leaf else 'non-empty'}) is run with the wrong leaf flag", gx)
        if args[1].cell is not sset.cell: raise Violation(f"node {ix}: run with another solution set", E.model_for(), gx)
    if not calls: return "malformed"
    return "leaf+inner" if {c[2] for c in calls} == {True, False} else ("leaf" if calls[0][2] else "inner")


CR = ["types", "asm", "vm", "check"]
HARNESSES = {
    "node_glue": dict(props=["C01"], crates=CR, fn=node_glue, params=dict(quick=dict(N=2, NE=2), thorough=dict(N=3, NE=3)),
        witnesses=["leaf", "leaf+inner", "malformed"],
        bound=dict(quick="1..2 nodes, 0..2 edges, every edge_start / edge target any u16, any solution index; scheduler (check_predicate_inner) and run_program uninterpreted",
                   thorough="1..3 nodes, 0..3 edges"),
        replay=dict(kind="check_glue")),
    "run_program": dict(props=["C01", "C06"], crates=CR, fn=run_program, params=dict(quick=dict(pmax=2, wmax=2), thorough=dict(pmax=3, wmax=2)),
        witnesses=["parent", "leaf-bool", "leaf-data", "err-vm", "err-limit"],
        bound=dict(quick="0..2 parents with stacks / memories of 0..2 symbolic words (or summing above 4096 / 10240), leaf or not, Vm::exec_ops uninterpreted (final stack [1] / [2] / [0] / two symbolic words, symbolic memory and gas, or an error)",
                   thorough="0..3 parents"),
        replay=dict(kind="check_levels")),
    "set_level": dict(props=["C01", "C07"], crates=CR, fn=set_level, params=dict(quick=dict(smax=3), thorough=dict(smax=4)), witnesses=["ok", "failed"],
        bound=dict(quick="1..3 solutions, check_predicate uninterpreted (ok / ok with data / fail, symbolic gas)", thorough="1..4 solutions"),
        replay=dict(kind="check_levels")),
    "two_pass": dict(props=["C03", "C01"], crates=CR, fn=two_pass, params=dict(quick=dict(smax=2, mmax=2), thorough=dict(smax=3, mmax=2)), witnesses=["ok"],
        bound=dict(quick="1..2 solutions over 2 contracts, 0..2 declared mutations each (symbolic keys, values incl. deletion), optionally one computed mutation; the per-pass check is uninterpreted",
                   thorough="1..3 solutions"),
        replay=dict(kind="check_levels")),
}
