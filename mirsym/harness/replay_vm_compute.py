from replay_common import *

SHAPES = None


def ops_text(name):
    P = lambda w: f"Stack::Push:{w}"
    S = {
        "alloc_index": ["Stack::Pop:0", "Compute::Compute:0", "Memory::Alloc:0", "Stack::Pop:0", "Compute::ComputeEnd:0", "Stack::Pop:0"],
        "alloc_shrink": ["Stack::Pop:0", "Compute::Compute:0", "Stack::Dup:0", P(2), "Stack::Swap:0", "Alu::Sub:0", "Memory::Alloc:0", "Stack::Pop:0", P(7), "Alu::Add:0", P(0), "Memory::Store:0", "Compute::ComputeEnd:0"],
        "repeat_counter": ["Stack::Pop:0", "Compute::Compute:0", "Access::RepeatCounter:0", "Stack::Pop:0", "Compute::ComputeEnd:0"],
        "store_index": ["Stack::Pop:0", "Compute::Compute:0", P(1), "Memory::Alloc:0", "Stack::Pop:0", P(0), "Memory::Store:0", P(0), "ParentMemory::Load:0", "Stack::Pop:0", "Compute::ComputeEnd:0"],
        "halt_if_index": ["Stack::Pop:0", "Compute::Compute:0", "TotalControlFlow::HaltIf:0", P(1), "Memory::Alloc:0", "Compute::ComputeEnd:0"],
        "no_end": ["Stack::Pop:0", "Compute::Compute:0", "Stack::Pop:0"],
        "nested": ["Stack::Pop:0", "Compute::Compute:0", P(1), "Compute::Compute:0", "Compute::ComputeEnd:0", "Compute::ComputeEnd:0"],
        "jump_past": ["Stack::Pop:0", "Compute::Compute:0", P(3), "Stack::Swap:0", "TotalControlFlow::JumpIf:0", "Compute::ComputeEnd:0", P(7), "Stack::Pop:0"],
        "jump_first": ["Stack::Pop:0", "Compute::Compute:0", P(0), "Pred::Eq:0", P(3), "Stack::Swap:0", "TotalControlFlow::JumpIf:0", "Compute::ComputeEnd:0", P(7), "Stack::Pop:0"],
    }
    return S[name]


def prepare(rp, ce, params):
    m = ce.get("model") or {}
    names = sorted(["repeat_counter", "alloc_shrink", "alloc_index", "store_index", "halt_if_index", "no_end", "nested", "jump_past", "jump_first"])
    shape = names[trace_val(ce, "shape")]
    if (trace_val(ce, "depth") or trace_val(ce, "rep_depth") or trace_val(ce, "halt0")) and not ce.get("plain_parent"):
        return None, "parent inside a compute program / with repeat state / already halted: not realised by the replay program"
    below = (seq(m, "s") + [0] * 4)[:trace_val(ce, "slen")]
    if ce.get("one_below"): below = below + [1]
    mem = (seq(m, "m") + [0] * 4)[:trace_val(ce, "mlen")]
    b = sw(m.get("breadth", 0))
    prefix = "Stack::Push:2;Stack::Push:1;Stack::Repeat:0" if ce.get("in_repeat") else ""
    fields = dict(kind="vm_compute", prefix=prefix, ops=";".join(ops_text(shape)), stack=" ".join(map(str, below + [b])), memory=" ".join(map(str, mem)),
                  cost=str(1 if ce.get("relax_gas") else m.get("cost", 1)), limit=str(2**64 - 1 if ce.get("relax_gas") else m.get("limit", 2**64 - 1)))

    def judge(out):
        if "panic" in out: return True, "real code panics: " + out["panic"][:200]
        return out.get("real") != out.get("reference"), f"real: {out.get('real')} | sequential reference: {out.get('reference')}"
    return fields, judge


def variants(rp, ce, params):
    """the same program / breadth / stack / memory with a plain parent (top level, no repeat state, not halted)"""
    if sw((ce.get("model") or {}).get("breadth", 1)) == 0:
        # an accepted breadth of 0 leaves the parent ON the Compute op, which then takes the next word as breadth: with a 1 below,
        # the wrong acceptance becomes a successful run where the specification demands an error
        yield "a word 1 below the breadth", dict(ce, plain_parent=True, one_below=True, relax_gas=True)
    if trace_val(ce, "depth") == 0 and (trace_val(ce, "rep_depth") or trace_val(ce, "halt0")):
        if trace_val(ce, "rep_depth"):
            yield "parent inside a count-up repeat scope of 2", dict(ce, plain_parent=True, in_repeat=True)
        yield "plain parent", dict(ce, plain_parent=True)
