from replay_common import *


def prepare(rp, ce, params):
    m = ce.get("model") or {}
    tr = ce.get("trace") or []
    if not any(t.startswith("with_salt=") for t in tr):
        return None, "plumbing harness: no native replay (pre-image only observable through the hash)"
    n = trace_val(ce, "n")
    fields = dict(kind="hash_addrs", via_iter=str(trace_val(ce, "via_iterator")))
    for k in range(n):
        fields[f"a{k}"] = " ".join(str(m.get(f"a{k}_{i}", 0) & 255) for i in range(32))
    if trace_val(ce, "with_salt"): fields["salt"] = " ".join(str(m.get(f"salt_{i}", 0) & 255) for i in range(2)) + " 0" * 30

    def judge(out):
        if "panic" in out: return True, "real code panics: " + out["panic"][:200]
        bad = out.get("order_independent") != "true" or out.get("matches_reference") != "true"
        return bad, f"order_independent={out.get('order_independent')} matches SHA-256(ascending addresses ‖ salt)={out.get('matches_reference')}"
    return fields, judge
