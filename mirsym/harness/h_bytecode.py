"""C14 / C06: BytecodeMapped (essential-vm, generic code instantiated at Op = essential_asm::Op)
against the reference parse of the byte stream."""
import z3
from session import *      # noqa
from h_vmops import AND, OR, NOT
from h_types import ints_eq, drain_bytes, seq_vals
from h_asm import spec, gen_stream, op_identity, be_word, u8, mk_op

TYBIND = {"<Op as ToOpcode>::Opcode": "essential_asm::opcode::Op",
          "<Op as essential_asm::ToOpcode>::Opcode": "essential_asm::opcode::Op",
          "<Op as TryFromBytes>::Error": "essential_asm::FromBytesError",
          "<Op as essential_asm::TryFromBytes>::Error": "essential_asm::FromBytesError",
          "Op": "essential_asm::Op"}


def setup(I):
    I.tybind = dict(TYBIND)


def same_op(E, opv, ref_item, sp, what):
    o, payload, off = ref_item
    g, nme, imm = op_identity(opv)
    if o is not None:
        if nme != "Push": raise Violation(what + ": Push expected", E.model_for())
        check(E, b_not(int_binop("Eq", imm, be_word(payload))), what + ": Push immediate differs")
    else:
        so = sp["by_code"][payload.v]
        if (g, nme) != (so["group"], so["name"]): raise Violation(what + f": {g}::{nme} != {so['group']}::{so['name']}", E.model_for())


def mapped(I, h, max_ops=3):
    E = I.E
    sp = spec()
    bs, ref, end = gen_stream(E, sp, max_ops)
    n = len(bs)
    owned = bool(E.choose(2, "owned"))
    vec = h.vec(list(bs))
    if owned:
        r = h.call("vm", "<BytecodeMapped<Op> as TryFrom<Vec<u8>>>::try_from", [vec])
    else:
        r = h.call("vm", "<BytecodeMapped<Op, &[u8]> as TryFrom<&[u8]>>::try_from", [SliceRef(vec, 0, n)])
    if end != "end":
        if r.variant != "Err": raise Violation(f"mapping accepts {end} bytecode that parsing rejects", E.model_for())
        kind = r.cells[0].v.variant if isinstance(r.cells[0].v, EnumV) else str(r.cells[0].v)
        if (end == "invalid") != (kind == "InvalidOpcode"): raise Violation(f"mapping fails with {kind} on {end} bytecode", E.model_for())
        return end
    if r.variant != "Ok": raise Violation("mapping rejects bytecode that parsing accepts", E.model_for())
    bm = r.cells[0].v
    idx = seq_vals(h.call("vm", "bytecode::BytecodeMapped::op_indices", [h.ref(bm)]))
    ints_eq(E, idx, [Int("usize", off) for _, _, off in ref], "op_indices")
    ops = iters.drain(I, h.call("vm", "bytecode::BytecodeMapped::ops", [h.ref(bm)]))
    if len(ops) != len(ref): raise Violation("ops() yields a different number of operations", E.model_for())
    for k, (x, it) in enumerate(zip(ops, ref)): same_op(E, x, it, sp, f"ops()[{k}]")
    probe = sorted(set(list(range(len(ref) + 3)) + [n - 1, n, n + 1, (1 << 64) - 1]) - {-1})
    for k in probe:
        o = h.call("vm", "bytecode::BytecodeMapped::op", [h.ref(bm), Int("usize", k)])
        if k < len(ref):
            if o.variant != "Some": raise Violation(f"op({k}) is None inside the program", E.model_for())
            same_op(E, o.cells[0].v, ref[k], sp, f"op({k})")
        elif o.variant != "None": raise Violation("op(i) is Some past the end", E.model_for())
    bc = seq_vals(h.call("vm", "bytecode::BytecodeMapped::bytecode", [h.ref(bm)]))
    ints_eq(E, bc, bs, "bytecode()")
    # building from the ops reproduces the bytes and indices
    it2 = Iter("owned", cells=[Cell(x) for x in ops], i=0)
    bm2 = h.call("vm", "<BytecodeMapped<Op> as FromIterator<Op>>::from_iter", [it2])
    ints_eq(E, seq_vals(h.call("vm", "bytecode::BytecodeMapped::bytecode", [h.ref(bm2)])), bs, "from_iter(ops).bytecode()")
    ints_eq(E, seq_vals(h.call("vm", "bytecode::BytecodeMapped::op_indices", [h.ref(bm2)])), idx, "from_iter(ops).op_indices()")
    # OpAccess agrees pointwise with the op list
    for k in probe:
        a = h.call("vm", "<&BytecodeMapped<Op, Bytes> as OpAccess>::op_access", [h.ref(h.ref(bm)), Int("usize", k)])
        if k < len(ref):
            if a.variant != "Some" or a.cells[0].v.variant != "Ok": raise Violation(f"op_access({k}) not Some(Ok)", E.model_for())
            same_op(E, a.cells[0].v.cells[0].v, ref[k], sp, f"op_access({k})")
        elif a.variant != "None": raise Violation("op_access past the end is not None", E.model_for())
    return "end"


HARNESSES = {
    "mapped": dict(props=["C14", "C06"], crates=["types", "asm", "vm"], fn=mapped, setup=setup,
                   params=dict(quick=dict(max_ops=2), thorough=dict(max_ops=3)), witnesses=["end", "invalid", "truncated"],
                   bound=dict(quick="byte streams of <=2 ops (Push any immediate | 6 representative opcodes) + terminal invalid byte / truncated Push; owned Vec<u8> and borrowed &[u8]",
                              thorough="<=3 ops"),
                   replay=dict(kind="vm_mapped")),
}
