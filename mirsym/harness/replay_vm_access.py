from replay_common import *


def prepare(rp, ce, params):
    m = ce.get("model") or {}
    opn = ["PredicateData", "PredicateDataLen", "PredicateDataSlots", "ThisAddress", "ThisContractAddress"][trace_val(ce, "op")]
    nsol = 1 + trace_val(ce, "solutions")
    idx = trace_val(ce, "index")
    order = list(range(nsol))
    if idx != 0: order[0], order[idx] = order[idx], order[0]
    fields = dict(kind="vm_io", op="Access::" + opn, memory="", state_ret="err", index="0")
    sols = []
    for pos, k in enumerate(order):
        tag = f"sol{k}"
        slots = []
        for s in range(trace_val(ce, f"{tag}_slots")):
            slots.append((seq(m, f"{tag}_s{s}_") + [0] * 4)[:trace_val(ce, f"{tag}_s{s}_len")])
        cb = [m.get(f"{tag}_c{i}", 0) & 255 for i in range(32)]; pb = [m.get(f"{tag}_p{i}", 0) & 255 for i in range(32)]
        fields[f"sol{pos}"] = "|".join(" ".join(map(str, s)) if s else "e" for s in slots) if slots else "none"
        fields[f"contract{pos}"] = " ".join(map(str, cb)); fields[f"predicate{pos}"] = " ".join(map(str, pb))
        sols.append((slots, cb, pb))
    S = (seq(m, "s") + [0] * 8)[:trace_val(ce, "slen")]
    fields["stack"] = " ".join(map(str, S))
    slots, cb, pb = sols[0]

    def be(bs): return [sw(int.from_bytes(bytes(bs[i:i + 8]), "big")) for i in range(0, 32, 8)]

    def ref():
        if opn == "ThisAddress": return S + be(pb)
        if opn == "ThisContractAddress": return S + be(cb)
        if opn == "PredicateDataSlots": return S + [len(slots)]
        if opn == "PredicateDataLen":
            if not S or not (0 <= S[-1] < len(slots)): return None
            return S[:-1] + [len(slots[S[-1]])]
        if len(S) < 3: return None
        sx, vx, ln = S[-3:]
        if not (0 <= sx < len(slots)) or vx < 0 or ln < 0 or vx + ln > len(slots[sx]): return None
        return S[:-3] + slots[sx][vx:vx + ln]

    def judge(out):
        if "panic" in out: return True, "real code panics: " + out["panic"][:200]
        r = ref()
        if r is None: return out.get("result") == "ok", f"specified: error; real: {out.get('result')}"
        st = [int(x) for x in out.get("stack", "").split()]
        return (out.get("result") != "ok" or st != r), f"real {out.get('result')} stack={st}; specified stack={r}"
    return fields, judge
