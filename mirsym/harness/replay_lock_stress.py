def prepare(rp, ce, params):
    fields = dict(kind="lock_stress", threads="8", n="3000", timeout_s="60")

    def judge(out):
        if "panic" in out: return True, "real code panics under contention: " + out["panic"][:200]
        if "timeout" in out: return True, "8 threads x 3000 closures on one lock: " + out["timeout"] + " (a clean run takes well under a second: deadlock / lost wake-up)"
        bad = out.get("final") != out.get("expected") or out.get("bad_return") == "true"
        return bad, f"8 threads x 3000 read-yield-write closures: final={out.get('final')} expected={out.get('expected')}"
    return fields, judge
