from replay_common import *


def prepare(rp, ce, params):
    m = ce.get("model") or {}
    bs = [(m.get(f"b{i}", 0)) & 255 for i in range(65)]
    n = trace_val(ce, "len", 0)
    fields = dict(kind="types_convert", bytes=" ".join(map(str, bs)), word=str(sw(m.get("w", m.get("w0", 0)))), slice=" ".join(map(str, bs[:n])))

    def judge(out):
        if "panic" in out: return True, "real code panics: " + out["panic"][:200]
        return out.get("all_ok") != "true", "native conversions: " + (out.get("failed") or "all identities hold")
    return fields, judge
