from replay_common import *


def prepare(rp, ce, params):
    m = ce.get("model") or {}
    bs = seq(m, "b", 8, False)
    fields = dict(kind="types_bytes", fn=rp["fn"], bytes=" ".join(map(str, bs)))
    return fields, panic_judge(ce["what"])
