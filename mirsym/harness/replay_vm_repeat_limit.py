def prepare(rp, ce, params):
    return None, "4096-entry repeat stack is not replayed"
