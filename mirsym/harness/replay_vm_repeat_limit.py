from replay_common import *


def prepare(rp, ce, params):
    """depth nested count-down repeat scopes opened by a real program, then the Repeat of the model (n, direction)"""
    m = ce.get("model") or {}
    depth = [4095, 4096][trace_val(ce, "depth")]
    n = sw(m.get("n", 1)); up = trace_val(ce, "up")
    ops = ["Stack::Push:1", "Stack::Push:0", "Stack::Repeat:0"] * depth + [f"Stack::Push:{n}", f"Stack::Push:{up}", "Stack::Repeat:0"]
    fields = dict(kind="vm_prog", ops=";".join(ops), stack="", memory="", costs="", default_cost="0", kind_costs="")

    def judge(out):
        if "panic" in out: return True, "real code panics: " + out["panic"][:200]
        want_ok = depth < 4096
        got_ok = out.get("result") == "ok"
        if got_ok != want_ok: return True, f"Repeat with {depth} open scopes: real {out.get('result')} {out.get('err', '')[:80]}, the limit of 4096 entries requires {'ok' if want_ok else 'an error'}"
        if not got_ok and out.get("err_index") != str(3 * depth + 2): return True, f"error reported at op {out.get('err_index')}, expected {3 * depth + 2}"
        return False, f"real: {out.get('result')} as the limit requires"
    return fields, judge
