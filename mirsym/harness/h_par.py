"""C02: the rayon sections (graph levels, solutions of a set, Compute children) with the task execution order as a solver-chosen
variable: every order explored must give the result of the sequential reference of the C01 / C10 harnesses."""
from session import *      # noqa
import h_graph, h_compute, h_levels


def _wrap(fn):
    def f(I, h, **kw):
        I.par_orders = True
        r = fn(I, h, **kw)
        perm = any(t.startswith("par_order=") and not t.endswith("=0") for t in I.E.trace)
        if perm: return "reordered"
        return "in-order" if any(t.startswith("par_order=") for t in I.E.trace) else "no-parallel-section"
    return f


CRV, CRC = ["types", "asm", "vm"], ["types", "asm", "vm", "check"]
HARNESSES = {
    "levels_any_order": dict(props=["C02"], crates=CRC, fn=_wrap(h_graph.scheduling),
        params=dict(quick=dict(N=3, NE=2), thorough=dict(N=3, NE=2)), witnesses=["reordered", "in-order", "no-parallel-section"],
        bound=dict(quick="graphs of 1..3 nodes / <=2 edges as in C01 (h_graph::scheduling); nodes of one level executed in every order (2 or 6 permutations), task = one node evaluation (atomic)",
                   thorough="same graphs (3 edges with all permutations did not finish within the 55 min cap: 2 900 s at 14 workers without an answer); the thorough tier deepens the other four harnesses"),
        replay=dict(kind="check_graph", par_runs=10), timeout=dict(quick=1500, thorough=3300), max_paths=dict(quick=400000, thorough=3000000), heavy=True),
    "flat_level_any_order": dict(props=["C02"], crates=CRC, fn=_wrap(h_graph.flat_level),
        params=dict(quick=dict(N=3), thorough=dict(N=4)), witnesses=["reordered", "in-order"],
        bound=dict(quick="one level of 2..3 independent leaves (true / false / data / failing each, both collect_all values) evaluated in every order: failing and unsatisfied indices ascending and complete, data outputs in node order, gas the saturating sum",
                   thorough="2..4 leaves (identity / reverse / rotation for 4)"),
        replay=dict(kind="check_flat", par_runs=10)),
    "outcomes_any_order": dict(props=["C02"], crates=CRC, fn=_wrap(lambda I, h, **kw: h_graph.scheduling(I, h, outcomes=True, **kw)),
        params=dict(quick=dict(N=2, NE=2), thorough=dict(N=2, NE=2)), witnesses=["reordered", "in-order"],
        bound=dict(quick="graphs of 1..2 nodes / <=2 edges, one node may fail / be unsatisfied / output data, both collect_all values: failing indices, data outputs and gas do not depend on the order",
                   thorough="same bound (3 nodes with every permutation in both passes: no answer after 1 900 s at 14 workers)"),
        replay=dict(kind="check_graph", par_runs=10), timeout=dict(quick=900, thorough=3300), max_paths=dict(quick=400000, thorough=3000000), heavy=True),
    "solutions_any_order": dict(props=["C02"], crates=CRC, fn=_wrap(h_levels.set_level),
        params=dict(quick=dict(smax=3), thorough=dict(smax=4)), witnesses=["reordered", "in-order"],
        bound=dict(quick="check_set_predicates on 1..3 solutions (check_predicate uninterpreted: ok / data / fail, symbolic gas, writes to its cache): every execution order of the per-solution tasks",
                   thorough="1..4 solutions"),
        replay=dict(kind="check_levels", par_runs=10)),
    "compute_any_order": dict(props=["C02"], crates=CRV, fn=_wrap(h_compute.compute),
        params=dict(quick=dict(bmax=2, ns=1, nm=1), thorough=dict(bmax=3, ns=1, nm=1)), witnesses=["reordered", "in-order", "no-parallel-section"],
        bound=dict(quick="Compute with breadth <=2 on the 8 child-body shapes of C10: children executed in both orders, join result equals the sequential reference",
                   thorough="breadth <=3 (6 orders)"),
        replay=dict(kind="vm_compute", par_runs=10)),
}
