from replay_common import *


def prepare(rp, ce, params):
    m = ce.get("model") or {}
    ws = seq(m, "w")
    fields = dict(kind="types_words", fn=rp["fn"], words=" ".join(map(str, ws)))
    if ce["what"].startswith("panic"):
        return fields, panic_judge(ce["what"])

    def judge(out):
        if "panic" in out: return True, "real code panics: " + out["panic"][:200]
        # functional mismatch: re-derive the documented layout concretely
        if rp["fn"] == "decode_mutation":
            exp = None
            if len(ws) >= 2 and ws[0] >= 0 and 1 + ws[0] < len(ws):
                k = ws[0]; v = ws[1 + k]
                if v >= 0 and 2 + k + v <= len(ws):
                    exp = "[" + " ".join(map(str, ws[1:1 + k])) + "|" + " ".join(map(str, ws[2 + k:2 + k + v])) + "]"
            got = out.get("value") if out.get("result") == "ok" else None
            return (got != exp), f"real={got} reference={exp}"
        return False, "no concrete oracle for this mismatch: " + str(out)[:200]
    return fields, judge
