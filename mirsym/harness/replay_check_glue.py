"""node_glue counterexamples replayed through the two-pass entry point with the graph of the model: the node whose leaf flag
is in question gets a program that ends unsatisfied ([0]) if the reference says it is a leaf - a correct check rejects the set -
the other nodes the usual token programs of the graph replay."""
from replay_common import *
import replay_check_graph


def prepare(rp, ce, params):
    ex = ce.get("extra") or {}
    if "node" not in ex: return None, "no node recorded"
    ix = int(ex["node"])
    tr = [t for t in (ce.get("trace") or []) if not t.startswith(("special=", "collect_all="))]
    if ex.get("leaf") in (True, "True"):
        tr.append(f"special={1 + 3 * ix + 1}")        # leaf by the reference: make it end with [0]
    return replay_check_graph.prepare(dict(kind="check_graph"), dict(ce, trace=tr), params)
