"""C06 / C18 / C17 / C01(L1): decoders, encoders and edge slicing of essential-types, from MIR."""
import z3
from session import *      # noqa
from h_vmops import AND, OR, NOT, W, ge0

U16MAX = 0xFFFF


def drain_bytes(I, it):
    return [x for x in iters.drain(I, iters.to_iter(I, it))]


def seq_vals(v):
    v = stdmodels.deref(v)
    return [c.v for c in stdmodels.as_slice(v).cells()]


def ints_eq(E, actual, expected, what):
    if len(actual) != len(expected):
        raise Violation(f"{what}: length {len(actual)} != expected {len(expected)}", E.model_for())
    for i, (a, e) in enumerate(zip(actual, expected)):
        check(E, b_not(int_binop("Eq", a, e)), f"{what}: element {i} differs")


# ------------------------------------------------------------------ mutations
def mk_mutation(h, key, value):
    return Agg("Mutation", [Cell(h.vec(key)), Cell(h.vec(value))])


def decode_mutation_spec(I, h, nmax=6):
    """decode_mutation on any word string of length <= nmax: no panic; Ok iff the documented layout
    [key_len, key.., value_len, value..] fits; result = exactly those words."""
    E = I.E
    n = E.choose(nmax + 1, "len")
    ws = h.words("w", n)
    sl = SliceRef(h.vec(list(ws)), 0, n)
    r = h.call("types", "decode_mutation", [sl])
    if r.variant == "Err":
        # Err is required iff the layout does not fit
        if n >= 2:
            kl = ws[0]
            for k in range(0, n - 1):           # key_len = k possible?
                vl = ws[1 + k]
                fits = AND(int_binop("Eq", kl, W(k)), ge0(vl), b_norm(z3.SignExt(8, vl.z3()) + (2 + k) <= z3.BitVecVal(n, 72)))
                check(E, fits, "Err although the words hold a well-formed mutation encoding")
        return "err"
    m = r.cells[0].v
    key, val = seq_vals(m.cells[0].v), seq_vals(m.cells[1].v)
    k, v = len(key), len(val)
    if 2 + k + v > n: raise Violation("decoded more words than given", E.model_for())
    check(E, b_not(int_binop("Eq", ws[0], W(k))), "key length word != decoded key length")
    check(E, b_not(int_binop("Eq", ws[1 + k], W(v))), "value length word != decoded value length")
    ints_eq(E, key, ws[1:1 + k], "key")
    ints_eq(E, val, ws[2 + k:2 + k + v], "value")
    return "ok"


def decode_mutations_total(I, h, nmax=6):
    E = I.E
    n = E.choose(nmax + 1, "len")
    ws = h.words("w", n)
    r = h.call("types", "decode_mutations", [SliceRef(h.vec(list(ws)), 0, n)])
    if r.variant == "Err": return "err"
    ms = seq_vals(r.cells[0].v)
    # result must re-encode to a prefix of the input: [count, m1.., m2..]
    # (the count word only pre-sizes the vector: the decoder reads mutations until the words end,
    #  so no relation between the count word and the number of results is asserted here)
    pos = 1
    for i, m in enumerate(ms):
        key, val = seq_vals(m.cells[0].v), seq_vals(m.cells[1].v)
        check(E, b_not(int_binop("Eq", ws[pos], W(len(key)))), f"mutation {i}: key length word")
        ints_eq(E, key, ws[pos + 1:pos + 1 + len(key)], f"mutation {i} key")
        pos += 1 + len(key)
        check(E, b_not(int_binop("Eq", ws[pos], W(len(val)))), f"mutation {i}: value length word")
        ints_eq(E, val, ws[pos + 1:pos + 1 + len(val)], f"mutation {i} value")
        pos += 1 + len(val)
    return "ok"


def mutations_roundtrip(I, h, mmax=2, kmax=2, vmax=2):
    """decode_mutations(encode_mutations(ms)) == ms, sizes agree"""
    E = I.E
    nm = E.choose(mmax + 1, "n_mut")
    ms, flat = [], []
    for i in range(nm):
        kl = E.choose(kmax + 1, f"k{i}"); vl = E.choose(vmax + 1, f"v{i}")
        key, val = h.words(f"k{i}_", kl), h.words(f"v{i}_", vl)
        ms.append((key, val))
    mv = h.vec([mk_mutation(h, list(k), list(v)) for k, v in ms])
    it = h.call("types", "encode_mutations", [SliceRef(mv, 0, nm)])
    ws = drain_bytes(I, it)
    exp = [W(nm)]
    for k, v in ms: exp += [W(len(k))] + list(k) + [W(len(v))] + list(v)
    ints_eq(E, ws, exp, "encode_mutations layout")
    # sizes
    tot = 1
    for i, (k, v) in enumerate(ms):
        sz = h.call("types", "encode_mutation_size", [Ref(mv.cells[i])])
        if not (sz.concrete and sz.v == 2 + len(k) + len(v)): raise Violation("encode_mutation_size wrong", E.model_for())
    r = h.call("types", "decode_mutations", [SliceRef(h.vec(ws), 0, len(ws))])
    if r.variant != "Ok": raise Violation("decode_mutations rejects the output of encode_mutations", E.model_for())
    out = seq_vals(r.cells[0].v)
    if len(out) != nm: raise Violation("round trip changes the number of mutations", E.model_for())
    for (k, v), m in zip(ms, out):
        ints_eq(E, seq_vals(m.cells[0].v), list(k), "round-trip key")
        ints_eq(E, seq_vals(m.cells[1].v), list(v), "round-trip value")
    return "ok"


# ------------------------------------------------------------------ predicates
def mk_node(h, es, addr_bytes):
    return Agg("Node", [Cell(es), Cell(Agg("ContentAddress", [Cell(h.vec(addr_bytes, "array"))]))])


def sym_predicate(I, h, nn, ne, short_addr=False):
    E = I.E
    nodes, ess, addrs = [], [], []
    for i in range(nn):
        es = E.sym_int(f"es{i}", "u16")
        ab = [E.sym_int(f"a{i}_{j}", "u8") for j in range(32)] if not short_addr else \
             [E.sym_int(f"a{i}_0", "u8")] + [Int("u8", 0)] * 31
        nodes.append(mk_node(h, es, ab)); ess.append(es); addrs.append(ab)
    edges = [E.sym_int(f"e{j}", "u16") for j in range(ne)]
    p = Agg("Predicate", [Cell(h.vec(nodes)), Cell(h.vec(list(edges)))])
    return p, ess, addrs, edges


def be16(x):
    hi = mk_int("u8", z3.Extract(15, 8, x.z3())); lo = mk_int("u8", z3.Extract(7, 0, x.z3()))
    return [hi, lo]


def predicate_roundtrip(I, h, nmax=2, emax=3):
    """decode(encode(p)) == p; encoding has the documented layout; encoded_size == real length"""
    E = I.E
    nn = E.choose(nmax + 1, "nodes"); ne = E.choose(emax + 1, "edges")
    p, ess, addrs, edges = sym_predicate(I, h, nn, ne)
    r = h.call("types", "encode_predicate", [h.ref(p)])
    if r.variant != "Ok": raise Violation("encode_predicate fails within limits", E.model_for())
    bs = drain_bytes(I, r.cells[0].v)
    exp = be16(Int("u16", nn))
    for es, ab in zip(ess, addrs): exp += be16(es) + ab
    exp += be16(Int("u16", ne))
    for e in edges: exp += be16(e)
    ints_eq(E, bs, exp, "encode_predicate layout")
    sz = h.call("types", "predicate_encoded_size", [h.ref(p)])
    check(E, b_not(int_binop("Eq", sz, Int("usize", len(bs)))), "predicate_encoded_size != actual encoded length")
    d = h.call("types", "decode_predicate", [SliceRef(h.vec(bs), 0, len(bs))])
    if d.variant != "Ok": raise Violation("decode_predicate rejects the output of encode_predicate", E.model_for())
    q = d.cells[0].v
    qn, qe = seq_vals(q.cells[0].v), seq_vals(q.cells[1].v)
    if len(qn) != nn or len(qe) != ne: raise Violation("round trip changes node/edge count", E.model_for())
    for i, nd in enumerate(qn):
        check(E, b_not(int_binop("Eq", nd.cells[0].v, ess[i])), f"node {i} edge_start changed")
        ints_eq(E, seq_vals(nd.cells[1].v.cells[0].v), addrs[i], f"node {i} address")
    ints_eq(E, qe, edges, "edges")
    return "ok"


def predicate_decode_total(I, h, lens=(0, 1, 2, 3, 4, 5, 6, 35, 36, 37, 38, 40, 70, 72, 74, 76)):
    """decode_predicate on arbitrary bytes (length classes): no panic; Ok result re-encodes to a prefix"""
    E = I.E
    L = lens[E.choose(len(lens), "len")]
    bs = [E.sym_int(f"b{i}", "u8") for i in range(L)]
    d = h.call("types", "decode_predicate", [SliceRef(h.vec(list(bs)), 0, L)])
    if d.variant != "Ok": return "err"
    q = d.cells[0].v
    qn, qe = seq_vals(q.cells[0].v), seq_vals(q.cells[1].v)
    need = 2 + 34 * len(qn) + 2 + 2 * len(qe)
    if need > L: raise Violation("decoded predicate larger than the input", E.model_for())
    check(E, b_not(AND(int_binop("Eq", bs[0], Int("u8", len(qn) >> 8)), int_binop("Eq", bs[1], Int("u8", len(qn) & 255)))),
          "node count differs from the length prefix")
    return "ok"


def node_edges_spec(I, h, nmax=3, emax=4):
    """Predicate::node_edges against the documented rule, any edge_start (incl. the leaf marker),
    any node index (in range, just out of range, huge)"""
    E = I.E
    nn = E.choose(nmax + 1, "nodes"); ne = E.choose(emax + 1, "edges")
    p, ess, _, edges = sym_predicate(I, h, nn, ne, short_addr=True)
    ixs = list(range(nn + 1)) + [(1 << 64) - 1]
    ix = ixs[E.choose(len(ixs), "ix")]
    r = h.call("types", "node_edges", [h.ref(p), Int("usize", ix)])
    is_some = r.variant == "Some"
    if ix >= nn:
        if is_some: raise Violation("node_edges returns Some for a node index out of range", E.model_for())
        return "none-oob"
    es = ess[ix]
    leaf = int_binop("Eq", es, Int("u16", U16MAX))
    # documented end
    if ix + 1 < nn:
        nxt = ess[ix + 1]
        nleaf = int_binop("Eq", nxt, Int("u16", U16MAX))
        end = mk_int("u16", z3.If(b_z3(nleaf), z3.BitVecVal(ne, 16), nxt.z3()))
    else:
        end = Int("u16", ne)
    inrange = AND(int_binop("Le", es, end), int_binop("Le", end, Int("u16", ne)))
    if not is_some:
        check(E, OR(leaf, inrange), "node_edges returns None although the documented sub-range exists")
        return "none"
    sl = r.cells[0].v
    check(E, NOT(OR(leaf, inrange)), "node_edges returns Some although the sub-range is not inside the edge list")
    got = [c.v for c in sl.cells()]
    if len(got) == 0:
        check(E, NOT(OR(leaf, int_binop("Eq", es, end))), "empty slice for a node that has edges")
        return "some"
    # non-empty: must be exactly edges[es..end]
    check(E, leaf, "leaf node reports edges")
    lo = sl.lo
    check(E, NOT(AND(int_binop("Eq", es, Int("u16", lo)), int_binop("Eq", end, Int("u16", sl.hi)))), "slice is not edges[edge_start..end]")
    if sl.seq is not p.cells[1].v: raise Violation("slice does not alias the predicate's edge list", E.model_for())
    return "some"


def _t(props, fn, crates=("types",), **kw):
    return dict(props=props, crates=list(crates), fn=fn, **kw)


HARNESSES = {
    "decode_mutation_spec": _t(["C06", "C18"], decode_mutation_spec,
        params=dict(quick=dict(nmax=6), thorough=dict(nmax=9)), witnesses=["ok", "err"],
        bound=dict(quick="word strings of length 0..6, every word any i64", thorough="length 0..9"),
        replay=dict(kind="types_words", fn="decode_mutation")),
    "decode_mutations_total": _t(["C06", "C18"], decode_mutations_total,
        params=dict(quick=dict(nmax=6), thorough=dict(nmax=9)), witnesses=["ok", "err"],
        bound=dict(quick="word strings of length 0..6, every word any i64", thorough="length 0..9"),
        replay=dict(kind="types_words", fn="decode_mutations")),
    "mutations_roundtrip": _t(["C18"], mutations_roundtrip,
        params=dict(quick=dict(mmax=2, kmax=2, vmax=2), thorough=dict(mmax=3, kmax=3, vmax=2)), witnesses=["ok"],
        bound=dict(quick="<=2 mutations, key/value length <=2, any words", thorough="<=3 mutations, key<=3, value<=2"),
        replay=dict(kind="types_roundtrip", fn="mutations")),
    "predicate_roundtrip": _t(["C18", "C17"], predicate_roundtrip,
        params=dict(quick=dict(nmax=2, emax=3), thorough=dict(nmax=3, emax=4)), witnesses=["ok"],
        bound=dict(quick="<=2 nodes, <=3 edges, any edge_start/address bytes/targets", thorough="<=3 nodes, <=4 edges"),
        replay=dict(kind="types_roundtrip", fn="predicate")),
    "predicate_decode_total": _t(["C06"], predicate_decode_total, witnesses=["ok", "err"],
        bound_text="byte strings of 16 length classes between 0 and 76 bytes, every byte symbolic",
        replay=dict(kind="types_bytes", fn="decode_predicate")),
    "node_edges_spec": _t(["C01", "C18", "C06"], node_edges_spec,
        params=dict(quick=dict(nmax=3, emax=4), thorough=dict(nmax=4, emax=5)), witnesses=["some", "none", "none-oob"],
        bound=dict(quick="<=3 nodes, <=4 edges, any u16 edge_start, node index in range / one past / usize::MAX",
                   thorough="<=4 nodes, <=5 edges"),
        replay=dict(kind="types_node_edges")),
}


# ------------------------------------------------------------------ fixed-width conversions (C18)
def converts(I, h):
    """word/byte conversions are big-endian and mutually inverse; ContentAddress / Signature conversions are the identity
    on their bytes; word_from_bytes_slice pads / truncates to 8 bytes; bool_from_word accepts exactly 0 and 1"""
    E = I.E
    which = E.choose(6, "fn")
    u8s = lambda p, n: [E.sym_int(f"{p}{i}", "u8") for i in range(n)]
    be = lambda bs: [mk_int("i64", z3.Concat(*[b.z3() for b in bs[i:i + 8]])) for i in range(0, len(bs), 8)]
    if which == 0:
        w = E.sym_int("w", "i64")
        bs = seq_vals(h.call("types", "bytes_from_word", [w]))
        check(E, b_not(int_binop("Eq", mk_int("i64", z3.Concat(*[b.z3() for b in bs])), w)), "bytes_from_word is not big-endian")
        back = h.call("types", "word_from_bytes", [h.vec(bs, "array")])
        check(E, b_not(int_binop("Eq", back, w)), "word_from_bytes(bytes_from_word(w)) != w")
        bsym = u8s("b", 8)
        w2 = h.call("types", "word_from_bytes", [h.vec(list(bsym), "array")])
        ints_eq(E, seq_vals(h.call("types", "bytes_from_word", [w2])), bsym, "bytes_from_word(word_from_bytes(b)) != b")
        return "ok"
    if which in (1, 2):
        n = 32 if which == 1 else 64
        f, g = ("word_4_from_u8_32", "u8_32_from_word_4") if which == 1 else ("word_8_from_u8_64", "u8_64_from_word_8")
        bs = u8s("b", n)
        ws = seq_vals(h.call("types", f, [h.vec(list(bs), "array")]))
        ints_eq(E, ws, be(bs), f + " is not the big-endian image")
        ints_eq(E, seq_vals(h.call("types", g, [h.vec(ws, "array")])), bs, f"{g}({f}(b)) != b")
        wsym = h.words("w", n // 8)
        bs2 = seq_vals(h.call("types", g, [h.vec(list(wsym), "array")]))
        ints_eq(E, seq_vals(h.call("types", f, [h.vec(bs2, "array")])), wsym, f"{f}({g}(w)) != w")
        return "ok"
    if which == 3:
        n = E.choose(11, "len")
        bs = u8s("b", n)
        w = h.call("types", "word_from_bytes_slice", [SliceRef(h.vec(list(bs)), 0, n)])
        padded = (bs + [Int("u8", 0)] * 8)[:8]
        check(E, b_not(int_binop("Eq", w, mk_int("i64", z3.Concat(*[b.z3() for b in padded])))), "word_from_bytes_slice: not the first 8 bytes zero-padded")
        return "ok"
    if which == 4:
        w = E.sym_int("w", "i64")
        r = h.call("types", "bool_from_word", [w])
        if r.variant == "None":
            check(E, OR_(int_binop("Eq", w, W(0)), int_binop("Eq", w, W(1))), "bool_from_word rejects 0/1")
        else:
            b = r.cells[0].v
            check(E, b_not(int_binop("Eq", w, W(1 if b else 0))), "bool_from_word maps the wrong word")
        return "ok"
    # ContentAddress <-> [Word;4] / [u8;32], Signature <-> [u8;65]
    bs = u8s("b", 65)
    sig = h.call("types", "<Signature as From<[u8; 65]>>::from", [h.vec(list(bs), "array")])
    back = seq_vals(h.call("types", "<[u8; 65] as From<Signature>>::from", [sig]))
    ints_eq(E, back, bs, "Signature <-> [u8; 65] round trip")
    ints_eq(E, seq_vals(sig.cells[0].v), bs[:64], "signature bytes")
    check(E, b_not(int_binop("Eq", sig.cells[1].v, bs[64])), "recovery id byte")
    ca = h.call("types", "<ContentAddress as From<[i64; 4]>>::from", [h.vec(be(bs[:32]), "array")])
    ints_eq(E, seq_vals(ca.cells[0].v), bs[:32], "ContentAddress from words")
    ws = seq_vals(h.call("types", "<[i64; 4] as From<ContentAddress>>::from", [ca]))
    ints_eq(E, ws, be(bs[:32]), "words from ContentAddress")
    return "ok"


def OR_(a, b):
    return b_or(a, b)


HARNESSES["converts"] = _t(["C18", "C12"], converts, witnesses=["ok"],
    bound_text="all values: every word / byte is symbolic; word_from_bytes_slice on slices of 0..10 bytes",
    replay=dict(kind="types_convert"))
