"""run_program replayed through the two-pass entry point: parent programs produce the model's stacks/memories, the node
under test first checks what it inherited (PanicIf on a mismatch) and then ends in the model's final state."""
from replay_common import *


def prog_make_state(stack, mem):
    ops = []
    if mem:
        ops += [f"Stack::Push:{len(mem)}", "Memory::Alloc:0", "Stack::Pop:0"]
        for a, w in enumerate(mem): ops += [f"Stack::Push:{w}", f"Stack::Push:{a}", "Memory::Store:0"]
    ops += [f"Stack::Push:{w}" for w in stack]
    return ops


def prog_check_inherited(stack, mem):
    ops = []
    if stack:
        ops += [f"Stack::Push:{w}" for w in stack] + [f"Stack::Push:{len(stack)}", "Pred::EqRange:0", "Pred::Not:0", "TotalControlFlow::PanicIf:0"]
    if mem:
        ops += ["Stack::Push:0", f"Stack::Push:{len(mem)}", "Memory::LoadRange:0"] + [f"Stack::Push:{w}" for w in mem] + \
               [f"Stack::Push:{len(mem)}", "Pred::EqRange:0", "Pred::Not:0", "TotalControlFlow::PanicIf:0"]
    # memory length must be exactly len(mem): allocating 0 returns the current length
    ops += ["Stack::Push:0", "Memory::Alloc:0", f"Stack::Push:{len(mem)}", "Pred::Eq:0", "Pred::Not:0", "TotalControlFlow::PanicIf:0"]
    return ops


def prepare(rp, ce, params):
    m = ce.get("model") or {}
    tr = ce.get("trace") or []
    if any(t.startswith("computed=") for t in tr):
        return two_pass(ce, m, tr)
    if any(t.startswith("res0=") for t in tr):
        return set_level(ce, m, tr)
    if not any(t.startswith("parents=") for t in tr):
        return None, "not replayed natively"
    npar = trace_val(ce, "parents")
    if trace_val(ce, "big"): return None, "limit case: not replayed"
    pst = [(seq(m, f"ps{k}_") + [0] * 4)[:trace_val(ce, f"ps{k}_len")] for k in range(npar)]
    pmem = [(seq(m, f"pm{k}_") + [0] * 4)[:trace_val(ce, f"pm{k}_len")] for k in range(npar)]
    leaf = trace_val(ce, "leaf") == 1
    k = trace_val(ce, "vm_result")
    if k == 4 or k == 3: return None, "VM error / arbitrary final stack: not replayed"
    fin = [[1], [2], [0]][k]
    inh_s = [w for s in pst for w in s]; inh_m = [w for s in pmem for w in s]
    n = npar + 1 + (0 if leaf else 1)
    ess, edges = [], []
    fields = dict(kind="check_graph", collect_all="0")
    for p in range(npar):
        ess.append(len(edges)); edges.append(npar)
        fields[f"prog{p}"] = ";".join(prog_make_state(pst[p], pmem[p]))
    test_ops = prog_check_inherited(inh_s, inh_m)
    # drop what is left and build the final state
    test_ops += ["Stack::Push:0", "Memory::Free:0"]
    fm = [0] if k == 1 else []
    if leaf:
        test_ops += prog_make_state(fin, fm)
        ess.append(0xFFFF)
        want_ok = k in (0, 1)
    else:
        test_ops += prog_make_state([77], [88])
        ess.append(len(edges)); edges.append(npar + 1)
        fields[f"prog{npar + 1}"] = ";".join(prog_check_inherited([77], [88]) + ["Stack::Push:1"])
        ess.append(0xFFFF)
        want_ok = True
    fields[f"prog{npar}"] = ";".join(test_ops)
    fields.update(n=str(n), edge_starts=" ".join(map(str, ess)), edges=" ".join(map(str, edges)))

    def judge(out):
        if "panic" in out: return True, "real code panics: " + out["panic"][:200]
        got = out.get("result") == "ok"
        return got != want_ok, f"reference: {'accept' if want_ok else 'reject'}; real two-pass check: {out.get('result')} {out.get('err', '')[:140]}"
    return fields, judge


def two_pass(ce, m, tr):
    """the declared mutations of the model go through the real two-pass check; solution 0's predicate gets one leaf per
    declared mutation that reads the key from the POST state of its contract and compares with the proposed value
    (empty = deleted); every key has the pre-state value [4242], so a mutation missing from the post-state is observable"""
    ns = 1 + trace_val(ce, "solutions")
    sols, progs, pre, seen = [], [], [], set()
    own = 1 + trace_val(ce, "contract0")
    for s_ in range(ns):
        ct = 1 + trace_val(ce, f"contract{s_}")
        muts = []
        for j in range(trace_val(ce, f"muts{s_}")):
            k = (seq(m, f"k{s_}_{j}_") + [0])[:1]
            v = (seq(m, f"v{s_}_{j}_") + [0])[:trace_val(ce, f"v{s_}_{j}_len")]
            if (ct, tuple(k)) in seen: return None, "model has a duplicate (contract, key): outside the harness' assumption"
            seen.add((ct, tuple(k)))
            muts.append("[" + " ".join(map(str, k)) + "|" + " ".join(map(str, v)) + "]")
            pre.append(f"{ct}:" + " ".join(map(str, k)) + "|4242")
            ext = [sw(int.from_bytes(bytes([ct] * 8), "big"))] * 4
            exp = [2, len(v)] + v
            cap = len(exp)
            ops = [f"Stack::Push:{cap}", "Memory::Alloc:0", "Stack::Pop:0"] + [f"Stack::Push:{w}" for w in ext] + [f"Stack::Push:{w}" for w in k] + \
                  ["Stack::Push:1", "Stack::Push:1", "Stack::Push:0", "StateRead::PostKeyRangeExtern:0",
                   "Stack::Push:0", f"Stack::Push:{cap}", "Memory::LoadRange:0"] + [f"Stack::Push:{w}" for w in exp] + [f"Stack::Push:{cap}", "Pred::EqRange:0"]
            progs.append(";".join(ops))
        sols.append(f"{ct},{10 + s_},,{';'.join(muts)}")
    if not progs: return None, "no declared mutation: nothing observable"
    fields = dict(kind="check_leaves", n=str(len(progs)), solutions=" // ".join(sols), pre=";".join(pre))
    for i, p in enumerate(progs): fields[f"prog{i}"] = p

    def judge(out):
        if "panic" in out: return True, "real code panics: " + out["panic"][:200]
        ok = out.get("result") == "ok"
        return (not ok), f"leaf programs comparing post-state reads with the proposed values {'are satisfied' if ok else 'fail: ' + out.get('err', '')[:140]}"
    return fields, judge


def set_level(ce, m, tr):
    """the per-solution outcomes of the model realised by one-leaf predicates (ok: [1]; data: an empty mutation list; fail: a
    program that pops an empty stack); lower-indexed solutions run longer, so completion order differs from index order on a pool
    with several threads.  The reported failing solution indices must be all failing ones, ascending."""
    import re
    ns = 1 + trace_val(ce, "solutions")
    kinds = [trace_val(ce, f"res{s_}") for s_ in range(ns)]
    fields = dict(kind="check_multi", n=str(ns), collect_all="0")
    for k, kd in enumerate(kinds):
        delay = 40000 * (ns - 1 - k)
        pad = f"Stack::Push:{200 + k};Stack::Pop:0;" + (f"Stack::Push:{delay};Stack::Push:1;Stack::Repeat:0;Stack::Push:0;Stack::Pop:0;Stack::RepeatEnd:0;" if delay else "")
        fields[f"prog{k}"] = pad + ["Stack::Push:1", "Stack::Push:1;Memory::Alloc:0;Stack::Pop:0;Stack::Push:2", "Stack::Pop:0"][kd]
    failing = [k for k, kd in enumerate(kinds) if kd == 2]

    def judge(out):
        if "panic" in out: return True, "real code panics: " + out["panic"][:200]
        if "result" not in out: return False, "no result: " + str(out)[:200]
        if not failing: return out["result"] != "ok", f"no failing solution; real: {out['result']} {out.get('err', '')[:100]}"
        got = [int(x) for x in re.findall(r"\((\d+), ProgramErrors", out.get("err", ""))]
        return out["result"] != "err" or got != failing, f"failing solutions: expected {failing}, real: {out['result']} {got}"
    return fields, judge
