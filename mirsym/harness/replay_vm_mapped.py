from replay_common import *
from replay_asm_bytes import stream_bytes


def prepare(rp, ce, params):
    m = ce.get("model") or {}
    bs = stream_bytes(ce, m)
    fields = dict(kind="vm_mapped", bytes=" ".join(map(str, bs)))

    def judge(out):
        if "panic" in out: return True, "real code panics: " + out["panic"][:200]
        p, o, b = out.get("parsed", ""), out.get("owned", ""), out.get("borrowed", "")
        if o != p or b != p: return True, f"mapping disagrees with parsing: parsed={p[:80]} owned={o[:80]} borrowed={b[:80]}"
        if p.startswith("ok") and (out.get("random_access_agrees") != "true" or out.get("rebuilt_equal") != "true"):
            return True, f"random access / rebuild disagree: {out.get('random_access_agrees')} {out.get('rebuilt_equal')}"
        return False, "mapped form agrees with the parsed list natively"
    return fields, judge
