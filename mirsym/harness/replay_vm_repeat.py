"""Repeat state machine replayed through real loop programs where the model's repeat stack is reachable:
a Repeat with count n / direction, a body recording the counter, RepeatEnd - compared with the specified
iteration sequence (max(n,1) iterations, counter 0..n-1 up / n..1 down)."""
from replay_common import *


def prepare(rp, ce, params):
    m = ce.get("model") or {}
    opn = ["Repeat", "RepeatEnd", "RepeatCounter"][trace_val(ce, "op")]
    depth = trace_val(ce, "depth")
    # derive a loop count / direction from the innermost slot of the model (or the operands of Repeat)
    if opn == "Repeat":
        S = seq(m, "s")
        if len(S) < 2: return None, "operand-count error path: not replayed"
        n, up = S[-2], S[-1]
        if up not in (0, 1): return None, "invalid direction: not replayed"
    else:
        if depth == 0: return None, "no loop: not replayed"
        i = depth - 1
        up = trace_val(ce, f"up{i}")
        c, l = sw(m.get(f"c{i}", 0)), sw(m.get(f"l{i}", 0))
        # a loop whose state passes through (counter=c): count up to l (c must be within 0..l-1) or count down from >= c
        n = l if up else c
        if abs(n) > 40: n = max(min(n, 40), -2)
    if n > 40: return None, "loop count too large for a replay program"
    # program: PUSH n; PUSH up; REP; REPC; (counter stays on the stack) REPE
    ops = [f"Stack::Push:{n}", f"Stack::Push:{up}", "Stack::Repeat:0", "Access::RepeatCounter:0", "Stack::RepeatEnd:0"]
    fields = dict(kind="vm_prog", ops=";".join(ops), costs="", kind_costs="", default_cost="1", limit=str(2000), stack="", memory="")
    iters = max(n, 1)
    want = list(range(0, iters)) if up else ([n - k for k in range(iters)] if n >= 1 else [n])

    def judge(out):
        if "panic" in out: return True, "real code panics: " + out["panic"][:200]
        if out.get("result") != "ok": return True, f"loop of {n} ({'up' if up else 'down'}) fails: {out.get('err', '')[:100]}"
        got = [int(x) for x in out.get("stack", "").split()]
        return got != want, f"counter sequence real={got[:12]} specified={want[:12]}"
    return fields, judge
