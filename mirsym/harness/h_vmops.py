"""C08 / C05: every Stack, Pred, Alu, Memory and ParentMemory operation, executed from the real MIR
of essential-vm (`sync::step_op_*` and everything below), against reference models written from
asm.yml.  Stack/memory lengths are structural (forked, <= bound); every word is symbolic (any i64)."""
import z3
from session import *      # noqa

I64 = "i64"
MINW, MAXW = -(1 << 63), (1 << 63) - 1


def W(v): return Int(I64, v)


def ge0(x): return int_binop("Ge", x, W(0))
def eqc(x, c): return int_binop("Eq", x, W(c))
def AND(*xs):
    r = True
    for x in xs: r = b_and(r, x)
    return r
def OR(*xs):
    r = False
    for x in xs: r = b_or(r, x)
    return r
def NOT(x): return b_not(x)
def wide(x, extra=8): return z3.SignExt(extra, x.z3())


def le_len(x, n):
    """0 <= x <= n for a word x and a concrete length n"""
    return AND(ge0(x), int_binop("Le", x, W(n)))


def lt_len(x, n):
    return AND(ge0(x), int_binop("Lt", x, W(n)))


def sum_le(a, b, n):
    """a >= 0, b >= 0, a + b <= n  (no wrap: 72-bit)"""
    return AND(ge0(a), ge0(b), b_norm(wide(a) + wide(b) <= z3.BitVecVal(n, 72)))


# ------------------------------------------------------------------ op table
# each entry: group, variant, needs (min stack words), pre(S, M, PM) -> Bool valid,
#             structural(S) -> list of operand Ints to pin on Ok, post(S, M, PM, c) -> (expS, expM)
def _bin(f):
    return dict(need=2, pre=lambda S, M, PM: f(S[-2], S[-1])[0],
                post=lambda S, M, PM, c: (S[:-2] + [f(S[-2], S[-1])[1]], M))


def _arith(op):
    def f(a, b):
        r, o = int_overflow_op(op, a, b)
        return b_not(o), r
    return f


def _div(a, b, rem):
    bad = OR(eqc(b, 0), AND(eqc(a, MINW), eqc(b, -1)))
    if a.concrete and b.concrete:
        if bad is True: return False, W(0)
        return True, int_binop("Rem" if rem else "Div", a, b)
    # truncating division (bvsdiv / bvsrem); the arithmetic identity a = q*d + r is decided on the
    # compiled code by the K harness c08_alu_divmod_lemma_bounded
    return b_not(bad), int_binop("Rem" if rem else "Div", a, b)


def _shift(kind):
    def f(a, b):
        valid = AND(ge0(b), int_binop("Lt", b, W(64)))
        if kind == "shl": r = int_binop("Shl", a, b)
        elif kind == "shr":
            ua = Int("u64", a.v)
            r0 = int_binop("Shr", ua, Int("u64", b.v))
            r = Int(I64, r0.v)
        else: r = int_binop("Shr", a, b)
        return valid, r
    return f


def _boolw(x):
    if isinstance(x, bool): return W(int(x))
    return mk_int(I64, z3.If(x, z3.BitVecVal(1, 64), z3.BitVecVal(0, 64)))


def _cmp(op): return lambda a, b: (True, _boolw(int_binop(op, a, b)))


OPS = {}


def op(group, variant, **kw):
    OPS[f"{group}::{variant}"] = dict(group=group, variant=variant, **kw)


for name, f in [("Add", _arith("Add")), ("Sub", _arith("Sub")), ("Mul", _arith("Mul")),
                ("Div", lambda a, b: _div(a, b, False)), ("Mod", lambda a, b: _div(a, b, True)),
                ("Shl", _shift("shl")), ("Shr", _shift("shr")), ("ShrI", _shift("sar"))]:
    op("Alu", name, **_bin(f))
for name, f in [("Eq", _cmp("Eq")), ("Gt", _cmp("Gt")), ("Lt", _cmp("Lt")), ("Gte", _cmp("Ge")), ("Lte", _cmp("Le")),
                ("And", lambda a, b: (True, _boolw(AND(NOT(eqc(a, 0)), NOT(eqc(b, 0)))))),
                ("Or", lambda a, b: (True, _boolw(OR(NOT(eqc(a, 0)), NOT(eqc(b, 0)))))),
                ("BitAnd", lambda a, b: (True, int_binop("BitAnd", a, b))),
                ("BitOr", lambda a, b: (True, int_binop("BitOr", a, b)))]:
    op("Pred", name, **_bin(f))
op("Pred", "Not", need=1, pre=lambda S, M, PM: True, post=lambda S, M, PM, c: (S[:-1] + [_boolw(eqc(S[-1], 0))], M))


def _eq_range_pre(S, M, PM):
    n = S[-1]
    return AND(ge0(n), b_norm(wide(n) * 2 <= z3.BitVecVal(len(S) - 1, 72)))


def _eq_range_post(S, M, PM, c):
    n = c[0]; rest = S[:-1]; base = len(rest) - 2 * n
    eq = AND(*[int_binop("Eq", rest[base + i], rest[base + n + i]) for i in range(n)])
    return rest[:base] + [_boolw(eq)], M


op("Pred", "EqRange", need=1, pre=_eq_range_pre, structural=lambda S: [S[-1]], post=_eq_range_post)

# ---- Stack
op("Stack", "Pop", need=1, pre=lambda S, M, PM: True, post=lambda S, M, PM, c: (S[:-1], M))
op("Stack", "Dup", need=1, pre=lambda S, M, PM: True, post=lambda S, M, PM, c: (S + [S[-1]], M))
op("Stack", "Swap", need=2, pre=lambda S, M, PM: True, post=lambda S, M, PM, c: (S[:-2] + [S[-1], S[-2]], M))
op("Stack", "DupFrom", need=1, pre=lambda S, M, PM: lt_len(S[-1], len(S) - 1), structural=lambda S: [S[-1]],
   post=lambda S, M, PM, c: (S[:-1] + [S[:-1][len(S) - 2 - c[0]]], M))


def _swapi_post(S, M, PM, c):
    r = list(S[:-1]); top = len(r) - 1; o = top - c[0]
    r[top], r[o] = r[o], r[top]
    return r, M


op("Stack", "SwapIndex", need=1, pre=lambda S, M, PM: AND(len(S) >= 2, lt_len(S[-1], len(S) - 1)),
   structural=lambda S: [S[-1]], post=_swapi_post)
op("Stack", "Select", need=3, pre=lambda S, M, PM: OR(eqc(S[-1], 0), eqc(S[-1], 1)), structural=lambda S: [S[-1]],
   post=lambda S, M, PM, c: (S[:-3] + [S[-2] if c[0] == 1 else S[-3]], M))


def _selr_pre(S, M, PM):
    c, n = S[-1], S[-2]
    return AND(OR(eqc(c, 0), eqc(c, 1)), ge0(n), b_norm(wide(n) * 2 <= z3.BitVecVal(len(S) - 2, 72)))


def _selr_post(S, M, PM, c):
    n, cond = c; rest = S[:-2]; base = len(rest) - 2 * n
    keep = rest[base + n:base + 2 * n] if cond == 1 else rest[base:base + n]
    return rest[:base] + keep, M


op("Stack", "SelectRange", need=2, pre=_selr_pre, structural=lambda S: [S[-2], S[-1]], post=_selr_post)
op("Stack", "Reserve", need=1,
   pre=lambda S, M, PM: AND(ge0(S[-1]), b_norm(wide(S[-1]) + (len(S) - 1) + 1 <= z3.BitVecVal(4096, 72))),
   structural=lambda S: [S[-1]], small=lambda S: int_binop("Le", S[-1], W(5)),
   post=lambda S, M, PM, c: (S[:-1] + [W(0)] * c[0] + [W(len(S) - 1)], M))
op("Stack", "Load", need=1, pre=lambda S, M, PM: lt_len(S[-1], len(S) - 1), structural=lambda S: [S[-1]],
   post=lambda S, M, PM, c: (S[:-1] + [S[c[0]]], M))


def _store_post(S, M, PM, c):
    r = list(S[:-2]); r[c[0]] = S[-2]
    return r, M


op("Stack", "Store", need=2, pre=lambda S, M, PM: lt_len(S[-1], len(S) - 2), structural=lambda S: [S[-1]], post=_store_post)
op("Stack", "Drop", need=1, pre=lambda S, M, PM: le_len(S[-1], len(S) - 1), structural=lambda S: [S[-1]],
   post=lambda S, M, PM, c: (S[:len(S) - 1 - c[0]], M))

# ---- Memory
MEM_LIMIT = 10240
op("Memory", "Alloc", need=1,
   pre=lambda S, M, PM: AND(ge0(S[-1]), b_norm(wide(S[-1]) + len(M) <= z3.BitVecVal(MEM_LIMIT, 72))),
   structural=lambda S: [S[-1]], small=lambda S: int_binop("Le", S[-1], W(5)),
   post=lambda S, M, PM, c: (S[:-1] + [W(len(M))], M + [W(0)] * c[0]))
op("Memory", "Free", need=1, pre=lambda S, M, PM: le_len(S[-1], len(M)), structural=lambda S: [S[-1]],
   post=lambda S, M, PM, c: (S[:-1], M[:c[0]]))
op("Memory", "Load", need=1, pre=lambda S, M, PM: lt_len(S[-1], len(M)), structural=lambda S: [S[-1]],
   post=lambda S, M, PM, c: (S[:-1] + [M[c[0]]], M))


def _mstore_post(S, M, PM, c):
    m = list(M); m[c[0]] = S[-2]
    return S[:-2], m


op("Memory", "Store", need=2, pre=lambda S, M, PM: lt_len(S[-1], len(M)), structural=lambda S: [S[-1]], post=_mstore_post)
op("Memory", "LoadRange", need=2, pre=lambda S, M, PM: sum_le(S[-2], S[-1], len(M)), structural=lambda S: [S[-2], S[-1]],
   post=lambda S, M, PM, c: (S[:-2] + M[c[0]:c[0] + c[1]], M))


def _mstorer_pre(S, M, PM):
    a, n = S[-1], S[-2]
    return AND(le_len(n, len(S) - 2), sum_le(a, n, len(M)))


def _mstorer_post(S, M, PM, c):
    n, a = c; rest = S[:-2]; vals = rest[len(rest) - n:]
    m = list(M); m[a:a + n] = vals
    return rest[:len(rest) - n], m


op("Memory", "StoreRange", need=2, pre=_mstorer_pre, structural=lambda S: [S[-2], S[-1]], post=_mstorer_post)
op("ParentMemory", "Load", need=1, pre=lambda S, M, PM: AND(PM is not None, lt_len(S[-1], len(PM or []))),
   structural=lambda S: [S[-1]], post=lambda S, M, PM, c: (S[:-1] + [PM[c[0]]], M))
op("ParentMemory", "LoadRange", need=2, pre=lambda S, M, PM: AND(PM is not None, sum_le(S[-2], S[-1], len(PM or []))),
   structural=lambda S: [S[-2], S[-1]], post=lambda S, M, PM, c: (S[:-2] + PM[c[0]:c[0] + c[1]], M))


STACK_LIMIT = 4096
OPS["Stack::Dup"]["fits"] = lambda S, M, PM: len(S) + 1 <= STACK_LIMIT
OPS["Stack::DupFrom"]["fits"] = lambda S, M, PM: len(S) <= STACK_LIMIT
OPS["Stack::Load"]["fits"] = lambda S, M, PM: len(S) <= STACK_LIMIT
OPS["Memory::Load"]["fits"] = lambda S, M, PM: len(S) <= STACK_LIMIT
OPS["ParentMemory::Load"]["fits"] = lambda S, M, PM: len(S) <= STACK_LIMIT
OPS["Memory::LoadRange"]["fits"] = lambda S, M, PM: b_norm(wide(S[-1]) + (len(S) - 2) <= z3.BitVecVal(STACK_LIMIT, 72))
OPS["ParentMemory::LoadRange"]["fits"] = lambda S, M, PM: b_norm(wide(S[-1]) + (len(S) - 2) <= z3.BitVecVal(STACK_LIMIT, 72))
OPS["Memory::Alloc"]["fits"] = lambda S, M, PM: len(S) <= STACK_LIMIT


def _abs_top(x, pad):      # absolute index: negative, or at/above the padding
    return OR(int_binop("Lt", x, W(0)), int_binop("Ge", x, W(pad)))


def _cnt_small(x, big):    # count: <= 8, or larger than anything present
    return OR(int_binop("Le", x, W(8)), int_binop("Gt", x, W(big)))


LIM_ASSUME = {
    "Stack::DupFrom": lambda S, ps, pm: _cnt_small(S[-1], len(S)),
    "Stack::Load": lambda S, ps, pm: _abs_top(S[-1], ps),
    "Stack::Drop": lambda S, ps, pm: _cnt_small(S[-1], len(S)),
    "Stack::SelectRange": lambda S, ps, pm: _cnt_small(S[-2], len(S)),
    "Stack::Reserve": lambda S, ps, pm: _cnt_small(S[-1], 5000),
    "Memory::Alloc": lambda S, ps, pm: _cnt_small(S[-1], 11000),
    "Memory::Free": lambda S, ps, pm: _abs_top(S[-1], pm),
    "Memory::Load": lambda S, ps, pm: _abs_top(S[-1], pm),
    "ParentMemory::Load": lambda S, ps, pm: _abs_top(S[-1], pm),
    "Memory::LoadRange": lambda S, ps, pm: AND(_abs_top(S[-2], pm), _cnt_small(S[-1], 11000)),
    "ParentMemory::LoadRange": lambda S, ps, pm: AND(_abs_top(S[-2], pm), _cnt_small(S[-1], 11000)),
    "Memory::StoreRange": lambda S, ps, pm: AND(_abs_top(S[-1], pm), _cnt_small(S[-2], 5000)),
}


def push_limit(I, h):
    """Push / Dup at a full stack"""
    E = I.E
    n = [4094, 4095, 4096][E.choose(3, "len")]
    st = h.stack([W(0)] * n)
    w = E.sym_int("w", I64)
    rep = Agg("Repeat", [Cell(h.vec([]))])
    r = h.call("vm", "step_op_stack", [h.enum("asm", "op::Stack", "Push", w), Int("usize", 0), h.ref(st), h.ref(rep)])
    ln = len(st.cells[0].v.cells)
    if ln > STACK_LIMIT: raise Violation("stack holds more than 4096 words after Push", E.model_for())
    if (r.variant == "Ok") != (n < STACK_LIMIT): raise Violation("Push at the size limit: wrong verdict", E.model_for())
    if r.variant == "Ok": check(E, b_not(int_binop("Eq", st.cells[0].v.cells[-1].v, w)), "pushed word differs")
    return "full" if n == STACK_LIMIT else "room"


# ------------------------------------------------------------------ generic harness
def words_eq(E, actual_cells, expected, what):
    if len(actual_cells) != len(expected):
        raise Violation(f"{what}: length {len(actual_cells)} != expected {len(expected)}", E.model_for())
    for i, (c, e) in enumerate(zip(actual_cells, expected)):
        check(E, b_not(int_binop("Eq", c.v, e)), f"{what}: word {i} differs from the reference model")


def run_op(I, h, key, ns, nm, pad_s=None, pad_m=None):
    """pad_s / pad_m: lists of candidate numbers of concrete zero words placed BELOW the symbolic words
    (limit harnesses: the machine state sits right at the 4096 / 10240 limits)"""
    E = I.E
    spec = OPS[key]
    grp, var = spec["group"], spec["variant"]
    slen = E.choose(ns + 1, "slen")
    uses_mem = grp in ("Memory",)
    uses_pm = grp == "ParentMemory"
    mlen = E.choose(nm + 1, "mlen") if (uses_mem or uses_pm) else 0
    has_pm = bool(E.choose(2, "has_parent")) if uses_pm else False
    ps = pad_s[E.choose(len(pad_s), "pad_s")] if pad_s else 0
    pm_ = pad_m[E.choose(len(pad_m), "pad_m")] if pad_m else 0
    S = [W(0)] * ps + h.words("s", slen)
    Mw = ([W(0)] * pm_ + h.words("m", mlen)) if uses_mem else []
    PM = ([W(0)] * pm_ + h.words("p", mlen)) if (uses_pm and has_pm) else None
    slen += ps
    if (pad_s or pad_m) and slen >= spec["need"] and key in LIM_ASSUME:
        # index / count operands address the symbolic top region (or are invalid): the padding words are all
        # alike, enumerating each of the 4096 / 10240 positions would add nothing - stated bound
        E.assume(LIM_ASSUME[key](S, ps, pm_))
    if spec.get("small") is not None and slen >= spec["need"] and not (pad_s or pad_m):
        E.assume(spec["small"](S))          # allocation size kept small; limits are decided by the lim_* harnesses
    st, mem = h.stack(list(S)), h.memory(list(Mw))
    opv = h.enum("asm", f"op::{grp}", var)
    if grp == "Alu": r = h.call("vm", "step_op_alu", [opv, h.ref(st)])
    elif grp == "Pred": r = h.call("vm", "step_op_pred", [opv, h.ref(st)])
    elif grp == "Memory": r = h.call("vm", "step_op_memory", [opv, h.ref(st), h.ref(mem)])
    elif grp == "ParentMemory":
        pv = h.vec([Ptr(Cell(h.memory(list(PM))), "arc")] if PM is not None else [])
        r = h.call("vm", "step_op_parent_memory", [opv, h.ref(st), SliceRef(pv, 0, len(pv.cells))])
    elif grp == "Stack":
        rep = Agg("Repeat", [Cell(h.vec([]))])
        r = h.call("vm", "step_op_stack", [opv, E.sym_int("pc", "usize"), h.ref(st), h.ref(rep)])
        if len(rep.cells[0].v.cells) != 0: raise Violation("data op touched the repeat stack", E.model_for())
    ok_ = r.variant == "Ok"
    if ok_ and grp == "Stack" and r.cells[0].v.variant != "None":
        raise Violation("data op changed control flow", E.model_for())
    if slen < spec["need"]:
        if ok_: raise Violation("Ok with too few operands on the stack", E.model_for())
        return "err-too-few"
    valid = spec["pre"](S, Mw, PM)
    if pad_s or pad_m:
        # resource bounds: after every executed operation stack <= 4096 words, memory <= 10240 words
        if len(st.cells[0].v.cells) > 4096: raise Violation("stack holds more than 4096 words after the operation", E.model_for())
        if len(mem.cells[0].v.cells) > MEM_LIMIT: raise Violation("memory holds more than 10240 words after the operation", E.model_for())
        lim_ok = spec.get("fits", lambda S, M, PM: True)(S, Mw, PM)
    else:
        lim_ok = True
    if not ok_:
        check(E, AND(valid, lim_ok), "Err although the documented precondition holds")
        return "err"
    check(E, b_not(AND(valid, lim_ok)), "Ok although a documented failure condition holds (or the result exceeds a size limit)")
    conc = []
    for x in (spec.get("structural") or (lambda S: []))(S):
        v = E.concretize(x, cap=4, label="operand")      # pinned by the path: exactly one value expected
        conc.append(Int(I64, v).sval())
    expS, expM = spec["post"](S, Mw, PM, conc)
    words_eq(E, st.cells[0].v.cells, expS, "stack")
    words_eq(E, mem.cells[0].v.cells, expM, "memory")
    return "ok"


def _mk(key):
    def fn(I, h, ns=6, nm=4):
        return run_op(I, h, key, ns, nm)
    return fn


def _mk_lim(key):
    def fn(I, h, ns=3, nm=2):
        return run_op(I, h, key, ns, nm, pad_s=[4091, 4092, 4093], pad_m=[10236, 10237, 10238])
    return fn


HARNESSES = {"lim_stack_push": dict(props=["C05"], crates=["types", "asm", "vm"], fn=push_limit, witnesses=["full", "room"],
                                    bound_text="stack of 4094 / 4095 / 4096 words, any pushed word", replay=dict(kind="vm_op", op="Stack::Push"))}
for key in ("Stack::Dup", "Stack::DupFrom", "Stack::Reserve", "Stack::Load", "Memory::Alloc", "Memory::Load", "Memory::LoadRange",
            "ParentMemory::Load", "ParentMemory::LoadRange", "Stack::Select", "Stack::SelectRange", "Stack::Drop", "Memory::Free",
            "Memory::StoreRange"):
    HARNESSES["lim_" + key.replace("::", "_").lower()] = dict(
        props=["C05", "C08"], crates=["types", "asm", "vm"], fn=_mk_lim(key),
        bound_text=f"{key}: stack of 4091..4093 zero words + <=3 symbolic words on top, memory/parent memory of 10236..10238 zero words + <=2 symbolic words: result respects the 4096 / 10240 limits",
        witnesses=["ok", "err"], replay=dict(kind="vm_op", op=key, lim=True))
for key in OPS:
    nm = "op_" + key.replace("::", "_").lower()
    HARNESSES[nm] = dict(
        props=["C08", "C05"], crates=["types", "asm", "vm"], fn=_mk(key),
        params=dict(quick=dict(ns=6, nm=4), thorough=dict(ns=9, nm=6)),
        bound=dict(quick=f"{key}: stack <= 6 words, memory/parent memory <= 4 words, every word any i64",
                   thorough=f"{key}: stack <= 9 words, memory/parent memory <= 6 words, every word any i64"),
        witnesses=["ok", "err-too-few"] + ([] if key in ("Stack::Pop", "Stack::Dup", "Stack::Swap", "Pred::Not") or
                                            (key.startswith("Pred::") and key not in ("Pred::EqRange",)) else ["err"]),
        replay=dict(kind="vm_op", op=key),
    )
