from replay_common import *


def prepare(rp, ce, params):
    """the solutions of the model (slot structure, words, addresses) with the REAL SHA-256: the op must find the independently
    built digest of every solution and must not find a digest with one flipped bit"""
    m = ce.get("model") or {}
    nsol = 1 + trace_val(ce, "solutions")
    fields = dict(kind="vm_pex")
    for k in range(nsol):
        tag = f"sol{k}"
        slots = []
        for s in range(trace_val(ce, f"{tag}_slots")):
            slots.append((seq(m, f"{tag}_s{s}_") + [0] * 4)[:trace_val(ce, f"{tag}_s{s}_len")])
        fields[tag] = "|".join(" ".join(map(str, s)) if s else "e" for s in slots) if slots else "none"
        fields[f"contract{k}"] = " ".join(str(m.get(f"{tag}_c{i}", 0) & 255) for i in range(32))
        fields[f"predicate{k}"] = " ".join(str(m.get(f"{tag}_p{i}", 0) & 255) for i in range(32))

    def judge(out):
        if "panic" in out: return True, "real code panics: " + out["panic"][:200]
        bad = [f"{k}={v}" for k, v in out.items() if (k.startswith("exists_") and v.strip() != "1") or (k.startswith("flipped_") and v.strip() != "0")]
        return bool(bad), ("PredicateExists disagrees with the documented pre-image: " + ", ".join(bad)) if bad else "PredicateExists finds exactly the documented digests"
    return fields, judge
