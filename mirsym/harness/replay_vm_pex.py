def prepare(rp, ce, params):
    return None, "hashing harness: no native replay written (SHA-256 is uninterpreted in the model)"
