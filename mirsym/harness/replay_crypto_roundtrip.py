from replay_common import *


def prepare(rp, ce, params):
    m = ce.get("model") or {}
    ln = sw(m.get("byte_len", 13))
    if not (0 <= ln <= 64): ln = 13
    fields = dict(kind="crypto_roundtrip", seed=str((m.get("salt_0", 7) & 127) or 7), len=str(ln),
                  salt=" ".join(str(m.get(f"salt_{i}", 0) & 255) for i in range(2)))

    def judge(out):
        if "panic" in out: return True, "real code panics: " + out["panic"][:200]
        bad = [k for k, v in out.items() if v == "false"]
        return bool(bad), ("native crypto differential checks failing: " + ", ".join(bad)) if bad else "all native crypto differential checks hold"
    return fields, judge
