"""C13 / C15 / C06: bytecode codec and effect analysis of essential-asm (macro-generated code
included) executed from MIR against an independent reading of asm.yml."""
import json, os, sys
import z3
from session import *      # noqa
from h_vmops import AND, OR, NOT
from h_types import ints_eq, drain_bytes, seq_vals

sys.path.insert(0, os.path.join(os.path.dirname(os.path.dirname(os.path.dirname(os.path.abspath(__file__)))), "lib"))
import asmspec

_SPEC = None


def spec():
    global _SPEC
    if _SPEC is None:
        repo = os.environ.get("EBV_REPO_COPY") or "/repo"
        ops = asmspec.load(repo)
        pin = json.load(open(os.path.join(os.path.dirname(os.path.abspath(asmspec.__file__)), "pinned_opcodes.json")))
        _SPEC = dict(ops=ops, by_code={o["opcode"]: o for o in ops}, pinned={o["opcode"]: o for o in pin})
    return _SPEC


def u8(v): return Int("u8", v)


def byte_iter(h, bs):
    return Ref(Cell(Iter("owned", cells=[Cell(b) for b in bs], i=0)))


def op_identity(opv):
    """(group, name, immediate or None) of an op::Op value"""
    g = opv.variant
    inner = opv.cells[0].v
    imm = inner.cells[0].v if inner.cells else None
    return g, inner.variant, imm


def opcode_identity(ocv):
    return ocv.variant, ocv.cells[0].v.variant


def mk_op(h, o, imm=None):
    inner = h.enum("asm", "op::" + o["group"], o["name"], *([imm] if o["num_arg_bytes"] else []))
    return h.enum("asm", "op::Op", o["group"], inner)


def be_word(bs):
    return mk_int("i64", z3.Concat(*[b.z3() for b in bs]))


# ------------------------------------------------------------------ opcode table
def opcode_table(I, h):
    """Opcode::try_from(b) for every byte b: Ok exactly for the bytes declared in asm.yml, denoting that
    operation; u8::from is its inverse; every other byte -> InvalidOpcodeError(b)."""
    E = I.E
    sp = spec()
    b = E.sym_int("b", "u8")
    r = h.call("asm", "<opcode::Op as TryFrom<u8>>::try_from", [b])
    valid = OR(*[int_binop("Eq", b, u8(c)) for c in sp["by_code"]])
    pinned = OR(*[int_binop("Eq", b, u8(c)) for c in sp["pinned"]])
    if r.variant == "Err":
        check(E, valid, "a byte declared in asm.yml is rejected as invalid opcode")
        check(E, pinned, "a byte of the pinned opcode table is rejected as invalid opcode (encoding no longer byte-compatible)")
        e = r.cells[0].v
        check(E, b_not(int_binop("Eq", e.cells[0].v, b)), "InvalidOpcodeError does not carry the offending byte")
        return "invalid"
    check(E, b_not(valid), "a byte that asm.yml does not declare is accepted as opcode")
    code = E.concretize(b, cap=4, label="byte")
    o = sp["by_code"][code]
    g, n = opcode_identity(r.cells[0].v)
    if (g, n) != (o["group"], o["name"]):
        raise Violation(f"byte {code:#04x} denotes {g}::{n}, asm.yml says {o['group']}::{o['name']}", E.model_for())
    pn = sp["pinned"].get(code)
    if pn is not None and (g, n) != (pn["group"], pn["name"]):
        raise Violation(f"byte {code:#04x} denotes {g}::{n}, the pinned opcode table says {pn['group']}::{pn['name']} (encoding no longer byte-compatible)", E.model_for())
    back = h.call("asm", "<u8 as From<opcode::Op>>::from", [r.cells[0].v])
    check(E, b_not(int_binop("Eq", back, u8(code))), "u8::from(opcode) is not the byte it was parsed from")
    return "valid"


# ------------------------------------------------------------------ single op parse / serialise
def op_parse(I, h, nmax=10):
    """Op::try_from_bytes on any byte string of length <= nmax, then to_bytes of the result"""
    E = I.E
    sp = spec()
    n = E.choose(nmax + 1, "len")
    bs = [E.sym_int(f"b{i}", "u8") for i in range(n)]
    it = byte_iter(h, bs)
    r = h.call("asm", "<op::Op as op::TryFromBytes>::try_from_bytes", [it])
    left = len(it.cell.v.d["cells"]) - it.cell.v.d["i"]
    used = n - left
    if n == 0:
        if r.variant != "None": raise Violation("non-empty result for empty input", E.model_for())
        return "empty"
    if r.variant == "None": raise Violation("None for non-empty input", E.model_for())
    res = r.cells[0].v
    valid = OR(*[int_binop("Eq", bs[0], u8(c)) for c in sp["by_code"]])
    if res.variant == "Err":
        e = res.cells[0].v
        if e.variant == "InvalidOpcode":
            check(E, valid, "valid opcode byte reported as InvalidOpcode")
            check(E, b_not(int_binop("Eq", e.cells[0].v.cells[0].v, bs[0])), "InvalidOpcode carries the wrong byte")
            return "invalid-opcode"
        # NotEnoughBytes: exactly when the opcode has an immediate that does not fit
        ok_trunc = OR(*[AND(int_binop("Eq", bs[0], u8(c)), 1 + o["num_arg_bytes"] > n) for c, o in sp["by_code"].items()])
        check(E, b_not(ok_trunc), "NotEnoughBytes although the immediate is complete (or the byte is not an opcode)")
        return "truncated"
    check(E, b_not(valid), "Ok for a byte that is not an opcode")
    code = E.concretize(bs[0], cap=4, label="byte")
    o = sp["by_code"][code]
    opv = res.cells[0].v
    g, nme, imm = op_identity(opv)
    if (g, nme) != (o["group"], o["name"]):
        raise Violation(f"byte {code:#04x} parsed as {g}::{nme}, asm.yml says {o['group']}::{o['name']}", E.model_for())
    if used != 1 + o["num_arg_bytes"]:
        raise Violation(f"parsing {o['name']} consumed {used} bytes, asm.yml says {1 + o['num_arg_bytes']}", E.model_for())
    if o["num_arg_bytes"]:
        check(E, b_not(int_binop("Eq", imm, be_word(bs[1:9]))), "Push immediate is not the big-endian word of its 8 bytes")
    out = drain_bytes(I, h.call("asm", "<op::Op as op::ToBytes>::to_bytes", [h.ref(opv)]))
    ints_eq(E, out, bs[:used], "to_bytes(parse(bytes)) != consumed bytes")
    oc = h.call("asm", "<op::Op as op::ToOpcode>::to_opcode", [h.ref(opv)])
    if opcode_identity(oc) != (o["group"], o["name"]): raise Violation("to_opcode disagrees with the op", E.model_for())
    return "op"


def op_roundtrip(I, h):
    """for every op of asm.yml (Push with any immediate): parse(to_bytes(op)) == op, first byte = declared opcode;
    the short-name constant denotes the same op"""
    E = I.E
    sp = spec()
    o = sp["ops"][E.choose(len(sp["ops"]), "op")]
    imm = E.sym_int("imm", "i64") if o["num_arg_bytes"] else None
    opv = mk_op(h, o, imm)
    bs = drain_bytes(I, h.call("asm", "<op::Op as op::ToBytes>::to_bytes", [h.ref(opv)]))
    if len(bs) != 1 + o["num_arg_bytes"]: raise Violation(f"{o['name']} serialises to {len(bs)} bytes", E.model_for())
    check(E, b_not(int_binop("Eq", bs[0], u8(o["opcode"]))), f"{o['name']} does not serialise to opcode {o['opcode']:#04x}")
    if imm is not None:
        check(E, b_not(int_binop("Eq", be_word(bs[1:9]), imm)), "immediate bytes are not the big-endian image of the word")
    r = h.call("asm", "<op::Op as op::TryFromBytes>::try_from_bytes", [byte_iter(h, bs)])
    if r.variant != "Some" or r.cells[0].v.variant != "Ok": raise Violation("serialised op does not parse", E.model_for())
    g, nme, imm2 = op_identity(r.cells[0].v.cells[0].v)
    if (g, nme) != (o["group"], o["name"]): raise Violation("round trip changes the operation", E.model_for())
    if imm is not None: check(E, b_not(int_binop("Eq", imm, imm2)), "round trip changes the immediate")
    # short constant
    f = I.P.fns["asm"].get(o["short"])
    if f is None or not f.is_const:
        raise Violation(f"no constant named {o['short']} for {o['group']}::{o['name']}", E.model_for())
    cv = I.run_fn(f, [])
    if o["num_arg_bytes"]:
        cv = I.call_value(cv, [imm])
    g3, n3, imm3 = op_identity(cv)
    if (g3, n3) != (o["group"], o["name"]): raise Violation(f"short constant {o['short']} denotes {g3}::{n3}", E.model_for())
    if imm is not None: check(E, b_not(int_binop("Eq", imm, imm3)), "short constructor changes the immediate")
    return "ok"


REPR = [0x02, 0x30, 0x80, 0x82, 0x83, 0x91]


def gen_stream(E, sp, max_ops):
    """Symbolic byte stream built op by op.  Per op boundary: END | Push with a fully symbolic immediate |
    one of the representative immediate-free opcodes REPR (4 of the 6 effectful ones, Pop, ComputeEnd) |
    an arbitrary invalid byte (terminal) | a Push truncated after 0 or 7 immediate bytes (terminal).
    Single-op parsing over ALL byte values is decided by op_parse; this decides composition over a stream."""
    bs, ref, end = [], [], "end"
    for k in range(max_ops + 1):
        opts = 1 + 1 + len(REPR) + 1 + 2 if k < max_ops else 1 + 0 + 0 + 1 + 2
        c = E.choose(opts, f"op{k}")
        if c == 0: break
        if k == max_ops: c += 1 + len(REPR)          # only terminal choices after max_ops ops
        if c == 1:
            imm = [E.sym_int(f"i{k}_{j}", "u8") for j in range(8)]
            ref.append((sp["by_code"][1], imm, len(bs))); bs += [u8(1)] + imm
        elif c < 2 + len(REPR):
            code = REPR[c - 2]
            ref.append((None, u8(code), len(bs))); bs.append(u8(code))
        elif c == 2 + len(REPR):
            b = E.sym_int(f"bad{k}", "u8")
            E.assume(NOT(OR(*[int_binop("Eq", b, u8(cc)) for cc in sp["by_code"]])))
            bs.append(b); end = "invalid"; break
        else:
            t = 0 if c == 3 + len(REPR) else 7
            bs += [u8(1)] + [E.sym_int(f"t{k}_{j}", "u8") for j in range(t)]
            end = "truncated"; break
    return bs, ref, end


def from_bytes_seq(I, h, max_ops=3):
    """from_bytes over a byte string: same ops as op-by-op reference parsing; to_bytes of the result = input"""
    E = I.E
    sp = spec()
    bs, ref, end = gen_stream(E, sp, max_ops)
    n = len(bs)
    it = h.call("asm", "from_bytes", [h.vec(list(bs))])
    got = iters.drain(I, it)
    # from_fn keeps calling after an error; compare up to and including the first Err
    k = 0
    for k, x in enumerate(got):
        if x.variant == "Err": break
    if end == "end":
        if any(x.variant == "Err" for x in got): raise Violation("from_bytes reports an error on well-formed bytecode", E.model_for())
        if len(got) != len(ref): raise Violation(f"from_bytes yields {len(got)} ops, reference parse {len(ref)}", E.model_for())
    else:
        errs = [x for x in got if x.variant == "Err"]
        if not errs: raise Violation(f"from_bytes accepts {end} bytecode", E.model_for())
        first = next(i for i, x in enumerate(got) if x.variant == "Err")
        if first != len(ref): raise Violation("from_bytes reports the error at the wrong op position", E.model_for())
        kind = errs[0].cells[0].v.variant
        if (end == "invalid") != (kind == "InvalidOpcode"): raise Violation(f"wrong error kind {kind} for {end} bytecode", E.model_for())
    ops = []
    for (o, payload, off), x in zip(ref, got):
        g, nme, imm = op_identity(x.cells[0].v)
        if o is not None:
            if nme != "Push": raise Violation("Push not parsed as Push", E.model_for())
            check(E, b_not(int_binop("Eq", imm, be_word(payload))), "Push immediate wrong inside a sequence")
        else:
            so = sp["by_code"][payload.v]
            if (g, nme) != (so["group"], so["name"]): raise Violation("op mismatch inside a sequence", E.model_for())
        ops.append(x.cells[0].v)
    if end == "end":
        back = drain_bytes(I, h.call("asm", "to_bytes", [h.vec(ops)]))
        ints_eq(E, back, bs, "to_bytes(from_bytes(bytes)) != bytes")
    return end


# ------------------------------------------------------------------ effects
EFFECT_OF = {("StateRead", "KeyRange"): 1, ("StateRead", "KeyRangeExtern"): 2, ("Access", "ThisAddress"): 4,
             ("Access", "ThisContractAddress"): 8, ("StateRead", "PostKeyRange"): 16, ("StateRead", "PostKeyRangeExtern"): 32}


def effects_bytes(I, h, max_ops=3):
    """bytes_contains_any(bytes, effects) on well-formed bytecode == some parsed op has one of the effects"""
    E = I.E
    sp = spec()
    bs, ref, end = gen_stream(E, sp, max_ops)
    n = len(bs)
    if end != "end": return "malformed"          # property is about well-formed bytecode
    eff = E.sym_int("effects", "u8")
    E.assume(int_binop("Le", eff, u8(63)))
    r = h.call("asm", "bytes_contains_any", [SliceRef(h.vec(list(bs)), 0, n), Agg("Effects", [Cell(eff)])])
    want = False
    for o, payload, off in ref:
        if o is not None: continue
        for (g, nme), bit in EFFECT_OF.items():
            code = next(c for c, so in sp["by_code"].items() if (so["group"], so["name"]) == (g, nme))
            has = b_not(int_binop("Eq", int_binop("BitAnd", eff, u8(bit)), u8(0)))
            want = OR(want, AND(int_binop("Eq", payload, u8(code)), has))
    check(E, b_not(b_eq(r, want)), "bytes_contains_any disagrees with the parsed program")
    return "wellformed"


def effects_analyze(I, h, nmax=3):
    """analyze(ops) == union of the per-op effect flags"""
    E = I.E
    sp = spec()
    n = E.choose(nmax + 1, "n_ops")
    # op classes: the six effectful ops, Push, one effect-free op
    classes = list(EFFECT_OF.items()) + [(("Stack", "Push"), 0), (("Alu", "Add"), 0)]
    ops, want = [], 0
    for i in range(n):
        (g, nme), bit = classes[E.choose(len(classes), f"op{i}")]
        so = next(o for o in sp["ops"] if (o["group"], o["name"]) == (g, nme))
        ops.append(mk_op(h, so, E.sym_int(f"imm{i}", "i64") if so["num_arg_bytes"] else None))
        want |= bit
    v = h.vec(ops)
    r = h.call("asm", "analyze", [SliceRef(v, 0, n)])
    bits = r
    while isinstance(bits, Agg): bits = bits.cells[0].v
    check(E, b_not(int_binop("Eq", bits, u8(want))), f"analyze returns the wrong effect set (expected {want:#04x})")
    return "ok"


def effects_analyze_all(I, h):
    """analyze on every ordered selection of distinct effectful ops (all 6 may be present): exact union"""
    E = I.E
    sp = spec()
    left = list(EFFECT_OF.items())
    ops, want = [], 0
    while left:
        c = E.choose(len(left) + 1, f"pick{len(ops)}")
        if c == 0: break
        (g, nme), bit = left.pop(c - 1)
        so = next(o for o in sp["ops"] if (o["group"], o["name"]) == (g, nme))
        ops.append(mk_op(h, so)); want |= bit
    # an effect-free op at a symbolic position does not matter; one Push at the front for good measure
    v = h.vec(ops)
    r = h.call("asm", "analyze", [SliceRef(v, 0, len(ops))])
    bits = r
    while isinstance(bits, Agg): bits = bits.cells[0].v
    check(E, b_not(int_binop("Eq", bits, u8(want))), f"analyze returns the wrong effect set (expected {want:#04x})", dict(order=[x.cells[0].v.variant for x in ops]))
    return "ok"


def _t(props, fn, **kw):
    return dict(props=props, crates=["types", "asm"], fn=fn, **kw)


HARNESSES = {
    "opcode_table": _t(["C13"], opcode_table, witnesses=["valid", "invalid"], bound_text="all 256 byte values (symbolic byte)",
                       replay=dict(kind="asm_bytes", fn="opcode")),
    "op_parse": _t(["C13", "C06"], op_parse, params=dict(quick=dict(nmax=10), thorough=dict(nmax=12)),
                   witnesses=["op", "invalid-opcode", "truncated", "empty"],
                   bound=dict(quick="byte strings of length 0..10, every byte symbolic", thorough="length 0..12"),
                   replay=dict(kind="asm_bytes", fn="parse_one")),
    "op_roundtrip": _t(["C13"], op_roundtrip, witnesses=["ok"], bound_text="every op of asm.yml, Push with any i64 immediate",
                       replay=dict(kind="asm_bytes", fn="roundtrip")),
    "from_bytes_seq": _t(["C13", "C06"], from_bytes_seq, params=dict(quick=dict(max_ops=3), thorough=dict(max_ops=4)),
                         witnesses=["end", "invalid", "truncated"],
                         bound=dict(quick="streams of <=3 ops (+ terminal invalid byte / truncated Push); per op: Push(any immediate) | 6 representative opcodes", thorough="<=4 ops"),
                         replay=dict(kind="asm_bytes", fn="from_bytes")),
    "effects_bytes": _t(["C15", "C03"], effects_bytes, params=dict(quick=dict(max_ops=3), thorough=dict(max_ops=4)),
                        witnesses=["wellformed"],
                        bound=dict(quick="well-formed streams of <=3 ops: Push(any immediate, so immediates containing opcode bytes are inside) | KRNG, PKRNG, PKREX, THIS, POP, COME; all 64 effect sets", thorough="<=4 ops"),
                        replay=dict(kind="asm_bytes", fn="effects_bytes")),
    "effects_analyze_all": _t(["C15"], effects_analyze_all, witnesses=["ok"],
                              bound_text="every ordered selection of distinct effectful ops (0..6 of the 6)", replay=dict(kind="asm_bytes", fn="analyze_all")),
    "effects_analyze": _t(["C15"], effects_analyze, params=dict(quick=dict(nmax=3), thorough=dict(nmax=4)), witnesses=["ok"],
                          bound=dict(quick="<=3 ops drawn from the 6 effectful ops, Push(any), Add", thorough="<=4 ops"),
                          replay=dict(kind="asm_bytes", fn="analyze")),
}
