"""Parser for rustc's `-Zunpretty=mir` text (nightly 1.97) into pre-parsed functions.

Only syntax: no semantics here.  Everything the engine executes comes from this text, which is
regenerated from /repo's working tree on every run."""
import os, re

# ----------------------------------------------------------------------------- helpers
OPEN, CLOSE = "([{<", ")]}>"


def split_top(s, sep=","):
    """Split at top-level separators (angle brackets count, `->` does not close)."""
    out, depth, cur, i, n = [], 0, [], 0, len(s)
    instr = False
    while i < n:
        ch = s[i]
        if instr:
            cur.append(ch)
            if ch == "\\":
                cur.append(s[i + 1]); i += 2; continue
            if ch == '"':
                instr = False
            i += 1
            continue
        if ch == '"':
            instr = True
        elif ch in "([{<":
            depth += 1
        elif ch in ")]}":
            depth -= 1
        elif ch == ">" and s[i - 1] not in "-=":
            depth -= 1
        if depth == 0 and s.startswith(sep, i):
            out.append("".join(cur)); cur = []; i += len(sep); continue
        cur.append(ch); i += 1
    out.append("".join(cur))
    return [x.strip() for x in out]


def strip_generics(path):
    """Remove every balanced `::<...>` / `<...>` generic argument list from a path, keeping a
    leading `<T as Trait>` qualified-self intact."""
    out, depth, i, n = [], 0, 0, len(path)
    while i < n:
        ch = path[i]
        if ch == "<" and (i > 0):
            # generic args if preceded by '::' or an identifier char
            j, d = i, 0
            while j < n:
                if path[j] == "<": d += 1
                elif path[j] == ">" and path[j - 1] not in "-=":
                    d -= 1
                    if d == 0: break
                j += 1
            # drop a preceding '::'
            if out[-2:] == [":", ":"]:
                out = out[:-2]
            i = j + 1
            continue
        out.append(ch); i += 1
    return "".join(out)


# ----------------------------------------------------------------------------- types
INT_BITS = {"u8": 8, "u16": 16, "u32": 32, "u64": 64, "usize": 64, "u128": 128,
            "i8": 8, "i16": 16, "i32": 32, "i64": 64, "isize": 64, "i128": 128}


class Ty:
    __slots__ = ("kind", "name", "args", "n", "mut")

    def __init__(self, kind, name=None, args=(), n=None, mut=False):
        self.kind, self.name, self.args, self.n, self.mut = kind, name, tuple(args), n, mut

    def __repr__(self):
        if self.kind == "int": return self.name
        if self.kind == "ref": return "&" + ("mut " if self.mut else "") + repr(self.args[0])
        if self.kind == "adt": return self.name + ("<" + ", ".join(map(repr, self.args)) + ">" if self.args else "")
        if self.kind == "tuple": return "(" + ", ".join(map(repr, self.args)) + ")"
        if self.kind == "array": return f"[{self.args[0]!r}; {self.n}]"
        if self.kind == "slice": return f"[{self.args[0]!r}]"
        return f"{self.kind}:{self.name}"

    @property
    def signed(self):
        return self.kind == "int" and self.name[0] == "i"

    @property
    def bits(self):
        return INT_BITS[self.name]

    def last(self):
        return self.name.split("::")[-1] if self.name else None


_ty_cache = {}


def parse_ty(s):
    s = s.strip()
    t = _ty_cache.get(s)
    if t is None:
        t = _parse_ty(s)
        _ty_cache[s] = t
    return t


def _parse_ty(s):
    if s in INT_BITS: return Ty("int", s)
    if s == "bool": return Ty("bool", "bool")
    if s == "char": return Ty("char", "char")
    if s == "str": return Ty("str", "str")
    if s == "()": return Ty("tuple", args=())
    if s == "!": return Ty("never", "!")
    if s.startswith("&"):
        r = s[1:].lstrip()
        m = re.match(r"'\w+\s+", r)
        if m: r = r[m.end():]
        mut = False
        if r.startswith("mut "):
            mut, r = True, r[4:]
        return Ty("ref", args=[parse_ty(r)], mut=mut)
    if s.startswith("*const ") or s.startswith("*mut "):
        mut = s.startswith("*mut ")
        return Ty("ptr", args=[parse_ty(s.split(" ", 1)[1])], mut=mut)
    if s.startswith("("):
        inner = s[1:-1].strip()
        items = [x for x in split_top(inner) if x]
        return Ty("tuple", args=[parse_ty(x) for x in items])
    if s.startswith("["):
        inner = s[1:-1]
        parts = split_top(inner, ";")
        if len(parts) == 2:
            n = parts[1].strip()
            n = int(re.sub(r"_usize$", "", n)) if re.fullmatch(r"\d+(_usize)?", n) else n
            return Ty("array", args=[parse_ty(parts[0])], n=n)
        return Ty("slice", args=[parse_ty(inner)])
    if s.startswith("{closure@") or s.startswith("{closure#") or s.startswith("{async"):
        return Ty("closure", s)
    if s.startswith("fn(") or s.startswith("unsafe fn(") or s.startswith("for<") or s.startswith("extern "):
        return Ty("fnptr", s)
    if s.startswith("dyn ") or s.startswith("impl "):
        return Ty("dyn", s)
    if s.startswith("<"):
        return Ty("proj", s)          # <T as Trait>::Assoc
    # path with optional generics
    i = s.find("<")
    if i < 0:
        return Ty("adt", s)
    # find matching close of the first '<' at top level; there may be ::Assoc after
    name = s[:i]
    depth, j = 0, i
    while j < len(s):
        if s[j] == "<": depth += 1
        elif s[j] == ">" and s[j - 1] not in "-=":
            depth -= 1
            if depth == 0: break
        j += 1
    args = [parse_ty(a) for a in split_top(s[i + 1:j]) if a and not a.startswith("'") and not re.match(r"^\d", a)]
    rest = s[j + 1:]
    if name.endswith("::"): name = name[:-2]
    if rest:
        return Ty("adt", name + rest, args)
    return Ty("adt", name, args)


# ----------------------------------------------------------------------------- places
def parse_place(s):
    s = s.strip()
    # suffixes [..]
    base, rest = _place_base(s)
    p = base
    while rest:
        assert rest[0] == "[", s
        j = rest.index("]")
        inner = rest[1:j]
        rest = rest[j + 1:]
        m = re.fullmatch(r"(-?\d+) of (\d+)", inner)
        if m:
            i = int(m.group(1))
            p = ("cindex", p, abs(i) if inner[0] != "-" else -abs(i), int(m.group(2)), inner[0] == "-")
        elif re.fullmatch(r"_\d+", inner):
            p = ("index", p, inner)
        else:
            m = re.fullmatch(r"(\d+):(-?\d*)", inner) or re.fullmatch(r"(\d+)\.\.(-?\d*)", inner)
            if m:
                p = ("subslice", p, int(m.group(1)), int(m.group(2)) if m.group(2) else 0)
            else:
                raise ValueError("place index " + s)
    return p


def _place_base(s):
    if s[0] == "_":
        m = re.match(r"_\d+", s)
        return ("local", m.group(0)), s[m.end():]
    assert s[0] == "(", s
    # matching paren
    depth, j = 0, 0
    while j < len(s):
        if s[j] in "([{<": depth += 1
        elif s[j] in ")]}" or (s[j] == ">" and s[j - 1] not in "-="):
            depth -= 1
            if depth == 0 and s[j] == ")": break
        j += 1
    inner, rest = s[1:j], s[j + 1:]
    if inner[0] == "*":
        return ("deref", parse_place(inner[1:])), rest
    # downcast: "<place> as Variant"   (no ':' after)
    # field: "<place>.N: type"
    d, k, pos_field, pos_as = 0, 0, None, None
    while k < len(inner):
        ch = inner[k]
        if ch in "([{<": d += 1
        elif ch in ")]}" or (ch == ">" and inner[k - 1] not in "-="): d -= 1
        elif d == 0 and ch == "." and pos_field is None:
            m = re.match(r"\.(\d+): ", inner[k:])
            if m: pos_field = (k, int(m.group(1)), m.end()); break
        elif d == 0 and inner.startswith(" as ", k) and pos_as is None:
            pos_as = k
        k += 1
    if pos_field:
        k, idx, ln = pos_field
        return ("field", parse_place(inner[:k]), idx, inner[k + ln:]), rest
    if pos_as is not None:
        return ("downcast", parse_place(inner[:pos_as]), inner[pos_as + 4:].strip()), rest
    raise ValueError("place " + s)


# ----------------------------------------------------------------------------- operands / rvalues
def parse_operand(s):
    s = s.strip()
    if s.startswith("no_retag "): s = s[9:]
    if s.startswith("copy "): return ("copy", parse_place(s[5:]))
    if s.startswith("move "): return ("move", parse_place(s[5:]))
    if s.startswith("const "): return ("const", s[6:].strip())
    return ("fnref", s)        # bare function item / ctor path


BINOPS = {"Add", "Sub", "Mul", "Div", "Rem", "BitXor", "BitAnd", "BitOr", "Shl", "Shr", "Eq", "Lt", "Le",
          "Ne", "Ge", "Gt", "Cmp", "Offset", "AddWithOverflow", "SubWithOverflow", "MulWithOverflow",
          "AddUnchecked", "SubUnchecked", "MulUnchecked", "ShlUnchecked", "ShrUnchecked"}
UNOPS = {"Not", "Neg", "PtrMetadata"}


def parse_rvalue(s):
    s = s.strip()
    if s.startswith("no_retag "): s = s[9:]
    if s.startswith("&"):
        if s.startswith("&raw const (fake) "): return ("ref", parse_place(s[18:]), False)
        if s.startswith("&raw const "): return ("ref", parse_place(s[11:]), False)
        if s.startswith("&raw mut "): return ("ref", parse_place(s[9:]), True)
        if s.startswith("&fake shallow "): return ("ref", parse_place(s[14:]), False)
        if s.startswith("&mut "): return ("ref", parse_place(s[5:]), True)
        return ("ref", parse_place(s[1:]), False)
    m = re.match(r"(\w+)\(", s)
    if m and s.endswith(")"):
        name = m.group(1)
        inner = s[m.end():-1]
        if name in BINOPS:
            a, b = split_top(inner)
            return ("binop", name, parse_operand(a), parse_operand(b))
        if name in UNOPS:
            return ("unop", name, parse_operand(inner))
        if name == "discriminant": return ("discr", parse_place(inner))
        if name == "Len": return ("len", parse_place(inner))
        if name == "CopyForDeref": return ("use", ("copy", parse_place(inner)))
        if name in ("SizeOf", "AlignOf"): return ("sizeof", name, inner)
        if name == "ShallowInitBox":
            return ("use", parse_operand(split_top(inner)[0]))
    # cast:  <operand> as <ty> (<Kind>...)
    m = re.fullmatch(r"(.+) as (.+?) \((\w+)(\(.*\))?(?:, \w+)?\)", s)
    if m and (s.startswith(("copy ", "move ", "const ")) or not s.startswith(("(", "["))):
        return ("cast", parse_operand(m.group(1)), m.group(2), m.group(3) + (m.group(4) or ""))
    if s.startswith("(") and s.endswith(")") and not s.startswith("(*") and _is_tuple(s):
        items = [x for x in split_top(s[1:-1]) if x]
        return ("tuple", [parse_operand(x) for x in items])
    if s.startswith("[") and s.endswith("]"):
        inner = s[1:-1]
        parts = split_top(inner, ";")
        if len(parts) == 2:
            return ("repeat", parse_operand(parts[0]), parts[1].strip())
        items = [x for x in split_top(inner) if x]
        return ("array", [parse_operand(x) for x in items])
    if s.startswith(("copy ", "move ", "const ")):
        return ("use", parse_operand(s))
    # struct-like aggregate  Path { f: v, .. }   (also closures / enum struct variants)
    m = re.fullmatch(r"(.+?) \{ (.*) \}", s, re.S)
    if m and not m.group(1).startswith(("copy", "move")):
        fields = []
        for f in split_top(m.group(2)):
            if not f: continue
            k, v = f.split(": ", 1)
            fields.append(parse_operand(v))
        return ("agg", m.group(1), fields, True)
    if s.startswith("{closure@") or s.startswith("{closure#"):
        return ("agg", s, [], True)
    # tuple-like aggregate Path(a, b) or unit Path
    if s.endswith(")"):
        depth, j = 0, len(s) - 1
        while j >= 0:
            if s[j] == ")": depth += 1
            elif s[j] == "(":
                depth -= 1
                if depth == 0: break
            j -= 1
        head, inner = s[:j], s[j + 1:-1]
        return ("agg", head, [parse_operand(x) for x in split_top(inner) if x], False)
    return ("agg", s, [], False)


def _is_tuple(s):
    # "(a, b)" tuple vs "(_1.0: T)" place used as operand never appears bare in rvalue position
    d = 0
    for i, ch in enumerate(s):
        if ch in "([{<": d += 1
        elif ch in ")]}" or (ch == ">" and s[i - 1] not in "-="):
            d -= 1
            if d == 0 and i != len(s) - 1: return False
    return True


# ----------------------------------------------------------------------------- statements / terminators
SKIP = ("StorageLive", "StorageDead", "nop", "FakeRead", "PlaceMention", "Retag", "Coverage",
        "AscribeUserType", "ConstEvalCounter", "Deinit", "BackwardIncompatibleDropHint")


def parse_stmt(ln):
    if ln.startswith(SKIP): return None
    m = re.fullmatch(r"discriminant\((.+)\) = (\d+);", ln)
    if m: return ("setdiscr", parse_place(m.group(1)), int(m.group(2)))
    if ln.startswith("assume("): return ("assume", parse_operand(ln[7:-2]))
    m = re.fullmatch(r"(.+?) = (.+);", ln, re.S)
    if not m: raise ValueError("stmt " + ln)
    return ("assign", parse_place(m.group(1)), parse_rvalue(m.group(2)))


def parse_term(t):
    if t.startswith("goto -> "): return ("goto", t[8:-1])
    if t == "return;": return ("return",)
    if t == "unreachable;": return ("unreachable",)
    if t.startswith("resume") or t.startswith("abort") or t.startswith("terminate"): return ("resume",)
    m = re.fullmatch(r"drop\((.+)\) -> \[return: (bb\d+).*\];", t)
    if m: return ("drop", parse_place(m.group(1)), m.group(2))
    m = re.fullmatch(r"switchInt\((.+)\) -> \[(.*)\];", t)
    if m:
        arms = []
        for x in m.group(2).split(", "):
            k, tgt = x.strip().split(": ")
            arms.append((None if k == "otherwise" else int(k), tgt))
        return ("switch", parse_operand(m.group(1)), arms)
    m = re.fullmatch(r"assert\((!?)(.+?), (\".*)\) -> \[success: (bb\d+).*\];", t, re.S)
    if m:
        return ("assert", m.group(1) == "!", parse_operand(m.group(2)), m.group(3)[:120], m.group(4))
    m = re.fullmatch(r"(.+?) = (.+?) -> \[return: (bb\d+)(?:, .*)?\];", t, re.S)
    if m:
        callee, args = _split_call(m.group(2))
        return ("call", parse_place(m.group(1)), callee, [parse_operand(a) for a in args], m.group(3))
    m = re.fullmatch(r"(.+?) = (.+?) -> (?:unwind .*|\[unwind.*|bb\d+);", t, re.S)
    if m:   # diverging call
        callee, args = _split_call(m.group(2))
        return ("call", parse_place(m.group(1)), callee, [parse_operand(a) for a in args], None)
    m = re.fullmatch(r"falseEdge -> \[real: (bb\d+), .*\];", t)
    if m: return ("goto", m.group(1))
    m = re.fullmatch(r"falseUnwind -> \[real: (bb\d+), .*\];", t)
    if m: return ("goto", m.group(1))
    raise ValueError("terminator " + t)


def _split_call(callx):
    callx = callx.strip()
    depth, j = 0, len(callx) - 1
    while j >= 0:
        ch = callx[j]
        if ch == ")": depth += 1
        elif ch == "(":
            depth -= 1
            if depth == 0: break
        j -= 1
    callee, argtxt = callx[:j], callx[j + 1:-1]
    return callee.strip(), [x for x in split_top(argtxt) if x]


# ----------------------------------------------------------------------------- functions
class Fn:
    __slots__ = ("name", "crate", "params", "ret", "locals", "raw_blocks", "_blocks", "promoted",
                 "header", "is_const", "closure_tag", "sig", "closures", "closure_ops")

    def __init__(self, name, crate):
        self.name, self.crate = name, crate
        self.params, self.ret, self.locals = [], None, {}
        self.raw_blocks, self._blocks, self.promoted = {}, {}, {}
        self.header, self.is_const, self.closure_tag = "", False, None
        self.closures = {}
        self.closure_ops = {}      # dest local -> full operand list of a closure aggregate (from the stable-mir dump)

    def block(self, bb):
        b = self._blocks.get(bb)
        if b is None:
            lines = self.raw_blocks[bb]
            stmts = []
            for ln in lines[:-1]:
                st = parse_stmt(ln)
                if st is not None:
                    if st[0] == "assign" and st[2][0] == "agg" and st[2][1].startswith("{closure@") and st[1][0] == "local":
                        full = self.closure_ops.get(st[1][1])
                        if full is not None and len(full) != len(st[2][2]):
                            # the default MIR printer lists one operand per captured ROOT variable only
                            st = ("assign", st[1], ("agg", st[2][1], [parse_operand(o) for o in full], st[2][3]))
                    stmts.append(st)
            b = (stmts, parse_term(lines[-1]))
            self._blocks[bb] = b
        return b

    def __repr__(self):
        return f"<Fn {self.crate}::{self.name}>"


def _join_multiline(body_lines):
    """Join statements that the pretty printer broke over several lines (string consts)."""
    out, cur = [], None
    for ln in body_lines:
        if cur is not None:
            cur += "\n" + ln
            if ln.rstrip().endswith(";"):
                out.append(cur); cur = None
            continue
        out.append(ln)
    return out


def parse_stable_closures(path):
    """{fn name: [ {dest: [operands]} per occurrence ]} from a `-Zunpretty=stable-mir` dump"""
    out = {}
    if not path or not os.path.exists(path): return out
    cur = None
    for line in open(path):
        if line.startswith("fn "):
            i = _find_params_open(line) if "(" in line else -1
            name = line[3:i] if i > 0 else line[3:].strip()
            cur = {}
            out.setdefault(name, []).append(cur)
        elif cur is not None:
            mm = re.match(r"\s+(_\d+) = \{closure@[^}]*\}\((.*)\);\s*$", line)
            if mm:
                cur[mm.group(1)] = [x for x in split_top(mm.group(2)) if x]
    return out


def parse_file(path, crate, stable_path=None):
    """Returns {name: Fn} for every fn / const / static / promoted in the dump."""
    txt = open(path).read()
    stable = parse_stable_closures(stable_path)
    occ = {}
    fns = {}
    last_by_name = {}
    # items start at column 0 with fn/const/static and end with a line "}" at column 0
    item_re = re.compile(r"^(fn|const|static(?: mut)?) ([^\n]*\{\n.*?)^\}\n", re.S | re.M)
    for m in item_re.finditer(txt):
        kind, body = m.group(1), m.group(2)
        head, _, rest = body.partition("{\n")
        head = head.strip()
        if kind == "fn":
            # name(params) -> ret
            i = _find_params_open(head)
            name = head[:i]
            j = _match_paren(head, i)
            params_txt = head[i + 1:j]
            ret = head[j + 1:].strip()
            ret = ret[2:].strip() if ret.startswith("->") else "()"
            f = Fn(name, crate)
            f.header = head
            if name in stable:
                k = occ.get(name, 0)
                occ[name] = k + 1
                if k < len(stable[name]): f.closure_ops = stable[name][k]
            for p in split_top(params_txt):
                if not p: continue
                k, t = p.split(": ", 1)
                f.params.append((k.strip(), t.strip()))
                f.locals[k.strip()] = t.strip()
            f.ret = ret
            if f.params and f.params[0][1].lstrip("&mut ").startswith("{closure@") and "{closure#" in name:
                f.closure_tag = re.search(r"\{closure@[^}]*\}", f.params[0][1]).group(0)
        else:
            # const NAME: TY = { ... }   or   const NAME: TY = const 100_usize;
            mm = re.match(r"(.+?): (.+?) = $", head + " ", re.S) if False else None
            k, dpt = -1, 0
            for ii, ch in enumerate(head):
                if ch == "<": dpt += 1
                elif ch == ">" and head[ii - 1] not in "-=": dpt -= 1
                elif dpt == 0 and head.startswith(": ", ii):
                    k = ii; break
            name = head[:k]
            ty = head[k + 2:]
            if ty.endswith(" ="): ty = ty[:-2]
            f = Fn(name, crate)
            f.is_const = True
            f.ret = ty.strip()
            f.header = head
        for mm in re.finditer(r"^\s+(?:let (?:mut )?)(_\d+): (.+?);$", rest, re.M):
            f.locals[mm.group(1)] = mm.group(2).strip()
        for mm in re.finditer(r"^    (bb\d+)(?: \(cleanup\))?: \{\n(.*?)^    \}", rest, re.S | re.M):
            lines, cur = [], None
            for ln in mm.group(2).split("\n"):
                s = ln.strip()
                if not s: continue
                if cur is not None:
                    cur += "\n" + ln
                    if s.endswith(";") : lines.append(cur); cur = None
                    continue
                if not s.endswith(";"):
                    cur = s
                    continue
                lines.append(s)
            if cur is not None: lines.append(cur)
            f.raw_blocks[mm.group(1)] = lines
        pm = re.fullmatch(r"(.+)::promoted\[(\d+)\]", f.name)
        if pm:
            parent = last_by_name.get(pm.group(1))
            if parent is not None:
                parent.promoted[int(pm.group(2))] = f
            fns[f.name + ("" if f.name not in fns else f"#{len(fns)}")] = f
        else:
            key = f.name
            prev = fns.get(key)
            if prev is not None and (prev.params != f.params or prev.ret != f.ret):
                # macro-generated impls share one `<impl at ..>` location: keep all of them
                key = f"{f.name}#{len(fns)}"
            fns[key] = f
            if f.closure_tag:
                cm = re.fullmatch(r"(.+)::\{closure#\d+\}", f.name)
                par = last_by_name.get(cm.group(1)) if cm else None
                if par is not None:
                    par.closures.setdefault(f.closure_tag, f)
            last_by_name[f.name] = f
    # simple consts:  const NAME: TY = const 100_usize;
    for m in re.finditer(r"^const ([^\n]+) = const ([^\n]+);$", txt, re.M):
        head = m.group(1)
        k, dpt = -1, 0
        for ii, ch in enumerate(head):
            if ch == "<": dpt += 1
            elif ch == ">" and head[ii - 1] not in "-=": dpt -= 1
            elif dpt == 0 and head.startswith(": ", ii):
                k = ii; break
        if k < 0: continue
        f = Fn(head[:k], crate)
        f.is_const = True
        f.ret = head[k + 2:].strip()
        f.raw_blocks = {"bb0": [f"_0 = const {m.group(2)};", "return;"]}
        f.locals["_0"] = f.ret
        fns[f.name] = f
    return fns


def _find_params_open(head):
    """index of the '(' that opens the parameter list: the first '(' at depth 0 that is followed
    by `_1: ` or `)`; impl-location tags `<impl at ...>` contain no parens, closures `{closure#0}` neither."""
    depth = 0
    for i, ch in enumerate(head):
        if ch == "<": depth += 1
        elif ch == ">" and head[i - 1] not in "-=": depth -= 1
        elif ch == "(" and depth == 0:
            if head.startswith("(_", i) or head.startswith("()", i):
                return i
    raise ValueError("fn header " + head)


def _match_paren(s, i):
    depth = 0
    for j in range(i, len(s)):
        if s[j] in "([{<": depth += 1
        elif s[j] in ")]}" or (s[j] == ">" and s[j - 1] not in "-="):
            depth -= 1
            if depth == 0: return j
    raise ValueError("unbalanced " + s)


def split_qualified(c):
    """`<SelfTy as Trait<..>>::method::<G>` -> (selfty, trait, method) using bracket depth, else None"""
    if not c.startswith("<"): return None
    depth, as_pos, close = 0, None, None
    i, n = 0, len(c)
    while i < n:
        ch = c[i]
        if ch in "<([": depth += 1
        elif ch in ")]": depth -= 1
        elif ch == ">" and c[i - 1] not in "-=":
            depth -= 1
            if depth == 0:
                close = i; break
        elif depth == 1 and c.startswith(" as ", i) and as_pos is None:
            as_pos = i
        i += 1
    if close is None or as_pos is None: return None
    rest = c[close + 1:]
    mm = re.match(r"::(\w+)(::<.*>)?$", rest, re.S)
    if not mm: return None
    return c[1:as_pos].strip(), c[as_pos + 4:close].strip(), mm.group(1)
