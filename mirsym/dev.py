"""dev helper: python3-vt dev.py <mir_dir> <module> [name-regex] [tier]"""
import json, os, re, subprocess, sys, time, importlib, functools
print = functools.partial(print, flush=True)
HERE = os.path.dirname(os.path.abspath(__file__))
sys.path.insert(0, HERE); sys.path.insert(0, os.path.join(HERE, "harness"))
mir_dir, mod = sys.argv[1], sys.argv[2]
rx = sys.argv[3] if len(sys.argv) > 3 else "."
tier = sys.argv[4] if len(sys.argv) > 4 else "quick"
m = importlib.import_module(mod)
for name in m.HARNESSES:
    if not re.search(rx, name): continue
    out = f"/tmp/dev_{mod}_{name}.json"
    if os.path.exists(out): os.remove(out)
    t = time.time()
    p = subprocess.run([sys.executable, os.path.join(HERE, "runone.py"), mir_dir, mod, name, tier, "0", out, "14", (mir_dir if os.path.isdir(os.path.join(mir_dir, "repo")) else os.path.dirname(mir_dir))],
                       capture_output=True, text=True)
    if not os.path.exists(out):
        print(name, "CRASH", (p.stdout + p.stderr)[-800:]); continue
    r = json.load(open(out))
    flag = "OK " if not r["unmodelled"] and not r["counterexamples"] and r["witnesses_hit"] == r["witnesses"] else "!! "
    print(flag, name, f"{time.time()-t:.1f}s paths={r['paths']} q={r['queries']} solver={r['solver_s']} out={r['outcomes']}", "missing=" + str(r["witnesses_missing"]) if r["witnesses_missing"] else "")
    for u in r["unmodelled"][:2]: print("    UNMODELLED", u[:400])
    for c in r["counterexamples"][:2]: print("    CE", c["what"][:300], "model=", str(c.get("model"))[:300], "repro=", c.get("reproduced"), c.get("replay_note", "")[:200])
