fn main() {
    std::panic::set_hook(Box::new(|_| {}));
    let args: Vec<String> = std::env::args().skip(1).collect();
    let run = |name: &str, f: fn(i64, i64) -> i64, x: i64, y: i64| match std::panic::catch_unwind(|| f(x, y)) {
        Ok(r) => println!("{name} {x} {y} {r}"),
        Err(_) => println!("{name} {x} {y} PANIC"),
    };
    if let Some(name) = args.first() {
        // mstest-native NAME x y [x y ...]
        let f = mstest::TESTS.iter().find(|(n, _)| n == name).expect("unknown test").1;
        for p in args[1..].chunks(2) { run(name, f, p[0].parse().unwrap(), p[1].parse().unwrap()); }
        return;
    }
    for (name, f) in mstest::TESTS {
        for (x, y) in mstest::INPUTS { run(name, *f, *x, *y); }
    }
}
