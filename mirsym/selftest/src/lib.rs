//! Translator validation for mirsym: small functions over (i64, i64) using the std methods the engine models.
//! The same functions are run natively (src/main.rs) and symbolically (selftest.py); results must agree.
use std::collections::{BTreeMap, BTreeSet, HashMap, HashSet};

fn u(x: i64) -> usize { (x.unsigned_abs() % 7) as usize }
fn v(x: i64, y: i64) -> Vec<i64> { vec![x, y, x.wrapping_add(y), 3, x ^ y, -4, y] }

pub fn rem_euclid(x: i64, y: i64) -> i64 { x.wrapping_rem_euclid(y) * 1000 + x.wrapping_div_euclid(y) % 1000 }
pub fn checked_euclid(x: i64, y: i64) -> i64 { x.checked_rem_euclid(y).unwrap_or(-77) + x.checked_div_euclid(y).unwrap_or(-99) % 1000 }
pub fn euclid_panics(x: i64, y: i64) -> i64 { x.rem_euclid(y) + x.div_euclid(y) % 100 }
pub fn abs_diff(x: i64, y: i64) -> i64 { (x.abs_diff(y) % 100_000) as i64 + x.signum() * 3 + y.is_negative() as i64 + x.is_positive() as i64 * 5 }
pub fn shifts(x: i64, y: i64) -> i64 {
    let s = (y & 0xff) as u32;
    x.checked_shl(s).unwrap_or(-1) ^ x.checked_shr(s).unwrap_or(-2) ^ x.wrapping_shl(s) ^ (x.overflowing_shr(s).1 as i64)
}
pub fn clamp(x: i64, y: i64) -> i64 { x.clamp(-5, 9) + y.clamp(y.min(3), 3) }
pub fn clamp_panics(x: i64, y: i64) -> i64 { x.clamp(y, 3) }
pub fn rotate(x: i64, y: i64) -> i64 { x.rotate_left((y & 63) as u32) ^ (x as u64).rotate_right(3) as i64 ^ x.swap_bytes() ^ (x as u16).to_be() as i64 }
pub fn bits(x: i64, y: i64) -> i64 {
    (x.count_ones() + x.leading_zeros() * 100 + y.trailing_zeros() * 10_000 + (y as u8).leading_ones() * 1_000_000 + x.count_zeros()) as i64
        + ((x as u64).is_power_of_two() as i64) * 7
}
pub fn pow(x: i64, y: i64) -> i64 { (x % 10).pow(3) + (y % 100).checked_pow(9).unwrap_or(-1) % 1000 + (x % 5).wrapping_pow(40) % 7 }
pub fn pow_panics(x: i64, _y: i64) -> i64 { x.pow(3) }
pub fn sat(x: i64, y: i64) -> i64 { x.saturating_div(y | 1) % 1000 + x.saturating_neg() % 10 + y.saturating_abs() % 10 + x.saturating_add(y) % 7 + x.saturating_sub(y) % 11 }
pub fn mixed_sign(x: i64, y: i64) -> i64 {
    let a = x as u64;
    (a.checked_add_signed(y).unwrap_or(5) % 1000) as i64 + (a.wrapping_add_signed(y) % 1000) as i64 + (a.saturating_add_signed(y) % 1000) as i64
        + (x.checked_add_unsigned(y as u64).unwrap_or(-3) % 1000) + x.checked_sub_unsigned(y as u64).unwrap_or(-4) % 1000
}
pub fn overflowing(x: i64, y: i64) -> i64 {
    let (a, o1) = x.overflowing_add(y); let (b, o2) = x.overflowing_mul(y); let (c, o3) = x.overflowing_sub(y);
    (a ^ b ^ c) % 1000 + o1 as i64 + 2 * o2 as i64 + 4 * o3 as i64
}
pub fn opt(x: i64, y: i64) -> i64 {
    let a = if x > 0 { Some(x) } else { None };
    let b = if y > 0 { Some(y) } else { None };
    let mut r = 0;
    if a.is_some_and(|v| v > 3) { r += 1 }
    r += a.xor(b).unwrap_or(-1) % 100;
    r += a.and(b).unwrap_or(-2) % 100;
    r += a.or(b).unwrap_or(-3) % 100;
    r += a.zip(b).map(|(p, q)| p - q).unwrap_or(-5) % 100;
    r += a.filter(|v| v % 2 == 0).map_or(-7, |v| v % 50);
    let mut c = a; r += *c.get_or_insert(9) % 10; r += c.replace(4).unwrap_or(0) % 10; r += c.take().unwrap_or(0);
    r += a.ok_or(8).unwrap_or_else(|e| e) % 10;
    r
}
pub fn res(x: i64, y: i64) -> i64 {
    let a: Result<i64, i64> = if x > 0 { Ok(x) } else { Err(x) };
    let b: Result<i64, i64> = if y > 0 { Ok(y) } else { Err(y) };
    let mut r = 0;
    if a.is_ok_and(|v| v > 3) { r += 1 }
    if a.is_err_and(|v| v < -3) { r += 2 }
    r += a.and(b).unwrap_or(-2) % 100; r += a.or(b).unwrap_or(-3) % 100;
    r += a.map_or_else(|e| e % 7, |v| v % 11);
    r += a.and_then(|v| if v % 2 == 0 { Ok(v) } else { Err(-v) }).unwrap_or_else(|e| e % 13);
    r += a.ok().unwrap_or(0) % 5 + a.err().unwrap_or(0) % 5;
    r += a.iter().count() as i64;
    r
}
pub fn ordering(x: i64, y: i64) -> i64 {
    let o = x.cmp(&y);
    o.is_lt() as i64 + 2 * o.is_le() as i64 + 4 * o.is_gt() as i64 + 8 * o.is_ge() as i64 + 16 * o.is_eq() as i64 + 32 * o.is_ne() as i64
        + 64 * (o.reverse() as i64 + 1) + 256 * (o.then(0.cmp(&y)) as i64 + 1) + 1024 * (o.then_with(|| y.cmp(&0)) as i64 + 1)
        + 4096 * ((x, y).cmp(&(y, x)) as i64 + 1) + 16384 * (std::cmp::max(x, y) % 3) + std::cmp::min(x, y) % 5
}
pub fn vec_ops(x: i64, y: i64) -> i64 {
    let mut w = v(x, y);
    let d: Vec<i64> = w.drain(1..3).collect();
    let tail = w.split_off(u(x) % (w.len() + 1));
    w.extend_from_slice(&tail[..tail.len().min(2)]);
    w.insert(u(y) % (w.len() + 1), 42);
    let rm = w.remove(u(x ^ y) % w.len());
    w.resize_with(6, || 11);
    w.retain(|e| e % 2 == 0 || *e == 11);
    w.dedup();
    w.truncate(5);
    let sr = if w.is_empty() { 0 } else { w.swap_remove(0) };
    d.iter().sum::<i64>() % 1000 + tail.len() as i64 * 7 + rm % 100 + w.iter().fold(0i64, |a, e| a.wrapping_mul(31).wrapping_add(*e)) % 10_007 + sr % 10
}
pub fn vec_panics(x: i64, y: i64) -> i64 {
    let mut w = v(x, y);
    let t = w.split_off(u(x) + 2);
    w.insert(u(y), 1);
    (w.len() + t.len()) as i64 + w.remove(u(y) + 1) % 10
}
pub fn slice_ops(x: i64, y: i64) -> i64 {
    let mut w = v(x % 50, y % 50);
    let mut r = 0i64;
    if w.ends_with(&[y % 50]) { r += 1 }
    if w.starts_with(&[x % 50, y % 50]) { r += 2 }
    r += w.strip_prefix(&[x % 50][..]).map_or(-1, |s| s.len() as i64) * 4;
    r += w.strip_suffix(&[3, 0][..]).map_or(-1, |s| s.len() as i64) * 32;
    w.rotate_left(u(x)); r += w[0] % 100 * 100;
    w.rotate_right(u(y)); r += w[1] % 100 * 10_000;
    w.sort();
    r += w.is_sorted() as i64 * 1_000_000;
    r += match w.binary_search(&3) { Ok(_) => 2_000_000, Err(i) => i as i64 * 3_000_000 };
    r += w.iter().rev().skip_while(|e| **e > 3).count() as i64 * 50_000_000;
    r += w.repeat(2).len() as i64;
    r += w.rchunks(3).map(|c| c[0]).sum::<i64>() % 7;
    r += w.chunks(2).map(|c| c.len() as i64).sum::<i64>();
    r += w.windows(2).filter(|p| p[0] == p[1]).count() as i64 * 3;
    r += w.concat_check();
    r
}
trait CC { fn concat_check(&self) -> i64; }
impl CC for Vec<i64> { fn concat_check(&self) -> i64 { [&self[..2], &self[5..]].concat().iter().sum::<i64>() % 13 } }
pub fn iter_ops(x: i64, y: i64) -> i64 {
    let w = v(x % 100, y % 100);
    let mut r = 0i64;
    r += w.iter().step_by(1 + u(x) % 3).sum::<i64>() % 1000;
    r += w.iter().scan(0i64, |a, e| { *a += e; if *a > 150 { None } else { Some(*a) } }).count() as i64 * 1000;
    let mut seen = 0; r += w.iter().inspect(|_| seen += 1).take(3).count() as i64 + seen * 10_000;
    r += w.iter().rposition(|e| *e == 3).map_or(-1, |i| i as i64) * 100_000;
    r += *w.iter().max_by(|a, b| (*a % 7).cmp(&(*b % 7))).unwrap() % 10 * 1_000_000;
    r += *w.iter().min_by(|a, b| (*a % 5).cmp(&(*b % 5))).unwrap() % 10 * 10_000_000;
    r += w.iter().copied().reduce(|a, b| a.wrapping_mul(3) ^ b).unwrap() % 97;
    r += w.iter().try_fold(0i64, |a, e| a.checked_add(*e)).unwrap_or(-1) % 89;
    r += w.iter().try_fold(0i64, |a, e| if *e == -4 && x > 0 { Err(a) } else { Ok(a + 1) }).unwrap_or_else(|e| -e);
    r += w.iter().lt(w.iter().rev()) as i64 + 2 * w.iter().ge(w.iter().skip(1)) as i64 + 4 * w.iter().ne(w.iter()) as i64;
    r += w.iter().cmp(w.iter().rev()) as i64 + 1;
    r += std::iter::repeat(x % 9).take(3).sum::<i64>() + std::iter::repeat_n(y % 9, 2).sum::<i64>();
    r += (0..10).step_by(3).map(|i| i as i64).sum::<i64>();
    r += w.iter().zip(w.iter().skip(2)).filter(|(a, b)| a == b).count() as i64;
    r += w.iter().enumerate().filter_map(|(i, e)| if i % 2 == 0 { Some(*e) } else { None }).last().unwrap_or(0) % 10;
    r += w.iter().any(|e| *e == 0) as i64 + w.iter().all(|e| *e != 1) as i64 * 2 + w.iter().position(|e| *e == -4).unwrap_or(99) as i64;
    r += w.iter().flat_map(|e| [*e, 1]).count() as i64 + w.iter().map(|e| e % 3).min().unwrap() + w.iter().map(|e| e % 3).max().unwrap();
    r += w.chunks(3).map(|c| c.iter().sum::<i64>()).nth(1).unwrap_or(0) % 10;
    r
}
pub fn maps(x: i64, y: i64) -> i64 {
    let mut m: BTreeMap<i64, i64> = BTreeMap::new();
    for (i, e) in v(x % 20, y % 20).into_iter().enumerate() { *m.entry(e).or_insert(0) += i as i64 + 1; }
    m.entry(3).and_modify(|e| *e += 100).or_insert(7);
    let mut r = 0i64;
    r += m.first_key_value().map_or(0, |(k, v)| k * 10 + v) + m.last_key_value().map_or(0, |(k, v)| k * 10 + v) * 100;
    r += m.get_key_value(&3).map_or(0, |(k, v)| k + v) * 10_000;
    m.retain(|k, _| k % 2 != 0 || *k == 0);
    r += m.len() as i64 * 1_000_000 + m.pop_first().map_or(0, |(k, _)| k) % 10 + m.keys().sum::<i64>() % 50 * 7 + m.values().sum::<i64>() % 50 * 11;
    r += m.remove_entry(&3).map_or(0, |(k, v)| k + v) + m.into_keys().count() as i64;
    let mut h: HashMap<i64, i64> = HashMap::new();
    h.insert(x % 3, 1); h.insert(y % 3, 2); h.insert(5, 3);
    r += h.values().sum::<i64>() * 3 + h.len() as i64 + h.contains_key(&0) as i64 + h.keys().copied().max().unwrap_or(0);
    r
}
pub fn sets(x: i64, y: i64) -> i64 {
    let a: BTreeSet<i64> = v(x % 10, y % 10).into_iter().collect();
    let b: BTreeSet<i64> = [3, 0, x % 10].into_iter().collect();
    let mut r = 0i64;
    r += a.is_subset(&b) as i64 + 2 * b.is_subset(&a) as i64 + 4 * a.is_disjoint(&b) as i64 + 8 * a.is_superset(&b) as i64;
    r += a.union(&b).count() as i64 * 16 + a.intersection(&b).sum::<i64>() % 16 * 256 + a.difference(&b).count() as i64 * 4096
        + a.symmetric_difference(&b).count() as i64 * 65536;
    r += a.first().copied().unwrap_or(0) % 10 + a.last().copied().unwrap_or(0) % 10 * 3 + a.iter().nth(1).copied().unwrap_or(0) % 10 * 5;
    let mut c = a.clone(); c.retain(|e| e % 2 == 0); r += c.len() as i64 * 1_000_000 + c.pop_first().unwrap_or(0) % 10;
    r += c.get(&0).copied().unwrap_or(9) + c.take(&0).unwrap_or(8) + c.contains(&0) as i64;
    let h: HashSet<i64> = a.iter().map(|e| e % 2).collect();
    r += h.len() as i64 * 7 + h.iter().sum::<i64>();
    r
}
pub fn strings(x: i64, y: i64) -> i64 { let s = format!("{x} and {y:?}"); drop(s); let e = std::hint::black_box(x % 3); e + 1 }


#[derive(Clone, Copy, Debug, PartialEq, Eq, PartialOrd, Ord, Hash)]
pub enum Shape { Dot, Line(i64), Rect { w: i64, h: i64 } }
#[derive(Clone, Debug, Default, PartialEq)]
pub struct Acc { pub total: i64, pub items: Vec<i64>, pub tag: Option<Box<i64>> }
fn shape_of(x: i64, y: i64) -> Shape { match (x % 3, y) { (0, _) => Shape::Dot, (1, y) | (-1, y) => Shape::Line(y), _ => Shape::Rect { w: x, h: y } } }
pub fn enums(x: i64, y: i64) -> i64 {
    let s = shape_of(x, y);
    let a = match s { Shape::Dot => 1, Shape::Line(l) if l < 0 => -l % 100, Shape::Line(l) => l % 100 + 1000, Shape::Rect { w, h } => (w % 100) * (h % 100) };
    let t = shape_of(y, x);
    a + (s == t) as i64 * 10_000 + (s < t) as i64 * 20_000 + matches!(t, Shape::Rect { .. }) as i64 * 40_000 + s.max(t).eq(&s) as i64 * 80_000
}
pub fn structs(x: i64, y: i64) -> i64 {
    let mut a = Acc { total: x % 1000, ..Default::default() };
    a.items.push(y % 1000); a.items.extend([1, 2, 3]);
    a.tag = Some(Box::new(x ^ y));
    let b = Acc { total: 5, ..a.clone() };
    let t = std::mem::take(&mut a.items);
    let old = std::mem::replace(&mut a.total, 9);
    let mut p = (x % 10, y % 10); std::mem::swap(&mut p.0, &mut p.1);
    old + t.len() as i64 * 1000 + b.items.iter().sum::<i64>() % 100 * 10_000 + (**b.tag.as_ref().unwrap() % 7) + (a == b) as i64 + p.0 * 3 + a.items.len() as i64
}
fn helper_q(x: i64, y: i64) -> Result<i64, String> {
    let a = x.checked_mul(y).ok_or_else(|| "mul".to_string())?;
    let b = u16::try_from(a).map_err(|_| "u16".to_string())?;
    let c = [1i64, 2, 3].get(b as usize % 5).copied().ok_or("idx".to_string())?;
    Ok(c + b as i64)
}
fn helper_o(v: &[i64], i: usize) -> Option<i64> { let a = v.get(i)?; let b = v.get(i + 1)?; a.checked_sub(*b) }
pub fn question(x: i64, y: i64) -> i64 {
    let r = match helper_q(x, y) { Ok(v) => v, Err(e) => -(e.len() as i64) };
    let w = v(x, y);
    r + helper_o(&w, u(x)).unwrap_or(-9) % 1000 * 100
}
pub fn casts(x: i64, y: i64) -> i64 {
    (x as u8) as i64 + ((x as i8) as i64) * 3 + ((y as u32) as i64 % 1000) * 5 + (x as u64 >> 60) as i64 + ((y as i16) as u64 % 977) as i64
        + u8::try_from(x).map_or(-1, |b| b as i64) + i32::try_from(y).map_or(-2, |b| (b % 100) as i64) + usize::try_from(x).is_ok() as i64 * 7
        + i64::from(x as u16 as i32 - 5) % 11 + (x == y) as i64 + ((x as i128 * y as i128) % 1009) as i64 + (-x as u8 == 3) as i64
}
pub fn loops(x: i64, y: i64) -> i64 {
    let n = u(x) as i64 + 1;
    let mut acc = 0i64; let mut i = 0;
    while i < n { if i == 4 { i += 1; continue } acc += i * (y % 10); i += 1; }
    let found = loop { i -= 1; if i <= 0 || i % 3 == 0 { break i } };
    let mut tri = 0;
    for a in 0..=n { for b in (a..n).rev() { if (a + b) % 2 == 0 { tri += 1 } } }
    'outer: for a in 1..10 { for b in 1..10 { if a * b == (n * 3) { tri += 100 * a; break 'outer } } }
    acc + found * 1000 + tri * 10_000
}
pub fn slices2(x: i64, y: i64) -> i64 {
    let w = v(x % 100, y % 100);
    let a = match &w[u(x)..] { [] => -1, [one] => *one, [a, b] => a - b, [a, .., z] => a + z };
    let b = if let [p, q, rest @ ..] = &w[..] { p + q + rest.len() as i64 } else { 0 };
    let (h, t) = w.split_first().unwrap();
    let mut c = [0i64; 4]; c.copy_from_slice(&w[1..5]); c.swap(0, 3); c.reverse();
    let d: Vec<i64> = w.chunks_exact(2).map(|p| p[0] * p[1] % 10).collect();
    let e = w.iter().rev().enumerate().map(|(i, e)| i as i64 * (e % 10)).sum::<i64>();
    let bytes = (x as u64).to_be_bytes(); let back = u64::from_be_bytes(bytes); let le = i64::from_le_bytes((y).to_le_bytes());
    let arr: [i64; 3] = std::array::from_fn(|i| i as i64 * (x % 5)); let arr2 = arr.map(|q| q + 1);
    a % 1000 + b % 1000 * 7 + h % 10 + t.len() as i64 + c[0] % 10 * 11 + d.len() as i64 * 13 + e % 100 * 17 + (back == x as u64) as i64 + (le == y) as i64
        + arr2.iter().sum::<i64>() + w.contains(&3) as i64 + w.first().unwrap() % 3 + w.last().unwrap() % 3 + [&w[..1], &w[6..]].concat().len() as i64
}
pub fn sorting(x: i64, y: i64) -> i64 {
    let mut w = v(x % 30, y % 30);
    w.sort_by_key(|e| (e % 5, -*e)); let a = w[0] * 3 + w[6];
    w.sort_unstable_by(|p, q| q.cmp(p)); let b = w[0] - w[6];
    w.dedup_by_key(|e| *e / 4); let c = w.len() as i64;
    let d = match w.binary_search_by(|e| 3.cmp(e)) { Ok(i) => i as i64, Err(i) => 100 + i as i64 };
    let mut pairs: Vec<(i64, usize)> = w.iter().copied().zip(0..).collect(); pairs.sort(); let e = pairs[0].1 as i64;
    a % 100 + b % 100 * 100 + c * 10_000 + d * 100_000 + e * 100_000_000
}
pub fn closures(x: i64, y: i64) -> i64 {
    let mut count = 0; let mut bump = |d: i64| { count += d; count };
    let a = bump(x % 7) + bump(y % 7);
    let add = move |q: i64| q + a; let twice = |f: &dyn Fn(i64) -> i64, q| f(f(q));
    let fs: Vec<Box<dyn Fn(i64) -> i64>> = vec![Box::new(|q| q * 2), Box::new(move |q| q - y % 3)];
    fn apply<F: FnOnce(i64) -> i64>(f: F, q: i64) -> i64 { f(q) }
    twice(&add, 1) + fs.iter().map(|f| f(x % 10)).sum::<i64>() * 100 + apply(|q| q % 13, x) + count * 10_000
}
pub fn hashmaps(x: i64, y: i64) -> i64 {
    let mut m: HashMap<(i64, bool), Vec<i64>> = HashMap::new();
    for e in v(x % 6, y % 6) { m.entry((e % 3, e < 0)).or_insert_with(Vec::new).push(e); }
    if let Some(l) = m.get_mut(&(0, false)) { l.push(99) }
    let rem = m.remove(&(1, false)).map_or(0, |l| l.len() as i64);
    let total: i64 = m.values().map(|l| l.iter().sum::<i64>()).sum();
    let biggest = m.iter().map(|(k, l)| (l.len(), k.0)).max().unwrap_or((0, 0));
    rem + total % 1000 * 10 + biggest.0 as i64 * 100_000 + biggest.1 * 1_000_000 + m.contains_key(&(2, false)) as i64 * 7 + m.len() as i64 * 10_000_000
}
pub fn rcs(x: i64, y: i64) -> i64 {
    use std::{rc::Rc, sync::Arc};
    let a = Arc::new(vec![x % 10, y % 10]); let b = a.clone(); let c = Arc::clone(&b);
    let n = Arc::strong_count(&a) as i64; drop(c); let m = Arc::strong_count(&a) as i64;
    let r = Rc::new(5i64); let r2 = r.clone();
    let mut d = Arc::new(3i64); *Arc::make_mut(&mut d) += x % 4;
    n * 10 + m + b[0] + *r + *r2 + *d * 100 + Arc::ptr_eq(&a, &b) as i64 * 1000 + Arc::try_unwrap(d).unwrap_or(0)
}

pub const TESTS: &[(&str, fn(i64, i64) -> i64)] = &[
    ("rem_euclid", rem_euclid), ("checked_euclid", checked_euclid), ("euclid_panics", euclid_panics), ("abs_diff", abs_diff), ("shifts", shifts),
    ("clamp", clamp), ("clamp_panics", clamp_panics), ("rotate", rotate), ("bits", bits), ("pow", pow), ("pow_panics", pow_panics), ("sat", sat),
    ("mixed_sign", mixed_sign), ("overflowing", overflowing), ("opt", opt), ("res", res), ("ordering", ordering), ("vec_ops", vec_ops),
    ("vec_panics", vec_panics), ("slice_ops", slice_ops), ("iter_ops", iter_ops), ("maps", maps), ("sets", sets), ("strings", strings), ("enums", enums), ("structs", structs), ("question", question), ("casts", casts), ("loops", loops),
    ("slices2", slices2), ("sorting", sorting), ("closures", closures), ("hashmaps", hashmaps), ("rcs", rcs),
];
pub const INPUTS: &[(i64, i64)] = &[(0, 0), (1, 2), (-7, 3), (-7, -3), (7, -3), (i64::MIN, -1), (i64::MAX, 1), (5, 0), (12, 12), (-1, i64::MIN),
    (3, 3), (40, -65), (1 << 40, 63), (-4, 8), (100, 200), (6, 6)];
