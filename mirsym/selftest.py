"""Translator validation (in the spirit of Serval's test-suite replay): the functions of selftest/src/lib.rs are run natively
and through mirsym (inputs symbolic, pinned by assumptions, so the symbolic code paths of the std models are exercised);
every result and every panic must agree.   python3-vt selftest.py [name-regex]"""
import os, re, subprocess, sys, tempfile, shutil
HERE = os.path.dirname(os.path.abspath(__file__))
sys.path.insert(0, HERE)
from session import *      # noqa

ENV = dict(os.environ, CARGO_NET_OFFLINE="true", CARGO_TARGET_DIR=os.path.join(os.environ.get("VERIF_CACHE", "/var/tmp/ebv-cache"), "selftest-target"))
SRC = os.path.join(HERE, "selftest")


def native():
    subprocess.run(["cargo", "build", "--offline", "--quiet"], cwd=SRC, env=ENV, check=True)
    out = subprocess.run([os.path.join(ENV["CARGO_TARGET_DIR"], "debug", "mstest-native")], capture_output=True, text=True, check=True).stdout
    res = {}
    for l in out.splitlines():
        n, x, y, r = l.split()
        res[(n, int(x), int(y))] = r
    return res


def dump(out):
    for flag, dst in (("mir", "mir_mstest.txt"), ("expanded", "exp_mstest.rs"), ("stable-mir", "smir_mstest.txt")):
        os.utime(os.path.join(SRC, "src", "lib.rs"), None)
        cmd = ["cargo", "+nightly", "rustc", "--offline", "--lib", "--", f"-Zunpretty={flag}"]
        if flag != "expanded": cmd += ["-C", "debug-assertions=off", "-C", "overflow-checks=on"]
        p = subprocess.run(cmd, cwd=SRC, env=dict(ENV, CARGO_TARGET_DIR=ENV["CARGO_TARGET_DIR"] + "-mir"), capture_output=True, text=True)
        if p.returncode != 0 or not p.stdout.strip(): raise SystemExit("MIR dump failed: " + p.stderr[-800:])
        open(os.path.join(out, dst), "w").write(p.stdout)


def symbolic(P, names):
    """inputs left symbolic in a small box: every feasible path is explored; one witness per path is pinned, the path's
    result evaluated under it and compared with the native result for that witness"""
    bad = 0
    exe = os.path.join(ENV["CARGO_TARGET_DIR"], "debug", "mstest-native")
    for name in names:
        if name in ("pow",): continue      # symbolic base to the 9th power: the bit-blasted product does not finish (stated limit of the engine)
        def harness(I, h):
            E = I.E
            x, y = E.sym_int("x", "i64"), E.sym_int("y", "i64")
            for v_, lo, hi in ((x, -6, 6), (y, -3, 3)):
                E.assume(int_binop("Ge", v_, Int("i64", lo))); E.assume(int_binop("Le", v_, Int("i64", hi)))
            try:
                r = h.call("mstest", name, [x, y])
            except Panic:
                m = E.model_for() or {}
                return f"{Int('i64', m.get('x', 0)).sval()},{Int('i64', m.get('y', 0)).sval()}:PANIC"
            m = E.model_for() or {}
            cx, cy = Int("i64", m.get("x", 0)).sval(), Int("i64", m.get("y", 0)).sval()
            E.assume(int_binop("Eq", x, Int("i64", cx))); E.assume(int_binop("Eq", y, Int("i64", cy)))
            v = r.v if r.concrete else E.concretize(r, cap=4, label="result")
            return f"{cx},{cy}:{Int('i64', v).sval()}"
        s = run_harness(P, harness, jobs=8, max_paths=400)
        got = {}
        for key in s["outcomes"]:
            xy, val = key.split(":"); got.setdefault(xy, set()).add(val)
        for p in s["panics"]:
            m = p.get("model") or {}
            got.setdefault(f"{Int('i64', m.get('x', 0)).sval()},{Int('i64', m.get('y', 0)).sval()}", set()).add("PANIC")
        if not got and not s["unmodelled"]:
            print(f"?? {name}: no path"); bad += 1; continue
        args = [a for xy in got for a in xy.split(",")]
        out = subprocess.run([exe, name] + args, capture_output=True, text=True).stdout
        nat = {f"{l.split()[1]},{l.split()[2]}": l.split()[3] for l in out.splitlines()}
        errs = [f"    ({xy}): native {nat.get(xy)}, mirsym {sorted(g)}" for xy, g in got.items() if g != {nat.get(xy)}]
        um = [u["info"][:300] for u in s["unmodelled"]][:2]
        if errs or um:
            bad += 1
            print(f"!! {name} (symbolic): {len(errs)} disagreements, {len(s['unmodelled'])} unmodelled paths")
            for e in errs[:6]: print(e)
            for u in um: print("    UNMODELLED", u)
        else:
            print(f"OK {name} (symbolic): {s['paths']} paths{' (capped)' if s['budget'] else ''}, {len(got)} witnesses agree")
    return bad


def main():
    rx = sys.argv[1] if len(sys.argv) > 1 else "."
    nat = native()
    names = sorted({k[0] for k in nat if re.search(rx, k[0])})
    inputs = sorted({(k[1], k[2]) for k in nat})
    d = tempfile.mkdtemp(prefix="mstest.")
    bad = 0
    try:
        dump(d)
        P = load_program(d, ["mstest"])
        for name in names:
            def harness(I, h):
                E = I.E
                k = E.choose(len(inputs), "input")
                cx, cy = inputs[k]
                x, y = E.sym_int("x", "i64"), E.sym_int("y", "i64")
                E.assume(int_binop("Eq", x, Int("i64", cx))); E.assume(int_binop("Eq", y, Int("i64", cy)))
                r = h.call("mstest", name, [x, y])
                v = r.v if r.concrete else E.concretize(r, cap=4, label="result")
                return f"{k}:{Int('i64', v).sval()}"
            s = run_harness(P, harness, jobs=8)
            got = {}
            for key in s["outcomes"]:
                k, val = key.split(":"); got.setdefault(int(k), set()).add(val)
            for p in s["panics"]:
                k = [int(t.split("=")[1]) for t in p.get("trace", []) if t.startswith("input=")][0]
                got.setdefault(k, set()).add("PANIC")
            errs = []
            for k, (cx, cy) in enumerate(inputs):
                want = nat[(name, cx, cy)]
                g = got.get(k, set())
                if g != {want}: errs.append(f"    ({cx}, {cy}): native {want}, mirsym {sorted(g) or 'nothing'}")
            um = [u["info"][-700:] if os.environ.get("SELFTEST_VERBOSE") else u["info"][:300] for u in s["unmodelled"]][:1 if os.environ.get("SELFTEST_VERBOSE") else 3]
            if errs or um:
                bad += 1
                print(f"!! {name}: {len(errs)} disagreements, {len(s['unmodelled'])} unmodelled paths")
                for e in errs[:6]: print(e)
                for u in um: print("    UNMODELLED", u)
            else:
                print(f"OK {name}: {len(inputs)} inputs agree ({s['paths']} paths)")
        if os.environ.get("SELFTEST_SYMBOLIC", "1") != "0":
            bad += symbolic(P, names)
    finally:
        shutil.rmtree(d, ignore_errors=True)
    print(f"SELFTEST {'FAILED' if bad else 'PASSED'}: {len(names) - bad}/{len(names)} functions agree with the native run")
    return 1 if bad else 0


if __name__ == "__main__":
    sys.exit(main())
