"""Harness-side API: load the MIR of the current tree, build symbolic inputs, run, aggregate."""
import json, os, re, shutil, sys, tempfile, time

sys.path.insert(0, os.path.dirname(os.path.abspath(__file__)))
import z3
from values import *       # noqa
import engine, interp, stdmodels, colls, iters
from engine import Program, Explorer, Violation, check
from mir import parse_ty

_PROGRAM = None


def load_program(mir_dir, crates):
    global _PROGRAM
    P = Program()
    for c in crates:
        P.load_crate(c, os.path.join(mir_dir, f"mir_{c}.txt"), os.path.join(mir_dir, f"exp_{c}.rs"),
                     os.path.join(mir_dir, f"smir_{c}.txt"))
    _PROGRAM = P
    return P


class H:
    """helpers to build Rust values inside a harness"""

    def __init__(self, I):
        self.I, self.E, self.P = I, I.E, I.P

    def enum(self, crate, path, variant, *fields):
        d = self.P.enums[crate][path]
        return EnumV(d, variant, [Cell(f) for f in fields])

    def some(self, v): return stdmodels.some(self.I, v)
    def none(self): return stdmodels.none(self.I)
    def ok(self, v): return stdmodels.ok(self.I, v)
    def err(self, v): return stdmodels.err(self.I, v)

    def vec(self, vals, kind="vec"): return Seq([Cell(v) for v in vals], kind)

    def words(self, prefix, n, ty="i64"):
        return [self.E.sym_int(f"{prefix}{i}", ty) for i in range(n)]

    def stack(self, vals): return Agg("Stack", [Cell(self.vec(vals))])
    def memory(self, vals): return Agg("Memory", [Cell(self.vec(vals))])

    def call(self, crate, name, args):
        f = self.P.fns[crate].get(name)
        if f is None:
            f = self.P.find_fn(name, crate)
        if f is None: raise Unmodelled(f"harness: function {crate}::{name} not found in the MIR of the current tree")
        return self.I.run_fn(f, args)

    def ref(self, v): return Ref(Cell(v))

    def content_address(self, prefix):
        return Agg("ContentAddress", [Cell(Seq([Cell(self.E.sym_int(f"{prefix}{i}", "u8")) for i in range(32)], "array"))])


def run_harness(P, harness, jobs=12, max_paths=200000, seed=0, timeout=None, setup=None):
    """Explore `harness(I, h)` over all paths.  Returns summary dict."""
    out_dir = tempfile.mkdtemp(prefix="mirsym.")
    t0 = time.time()
    E = Explorer(out_dir, jobs=jobs, max_paths=max_paths, seed=seed)

    def body(E_):
        I = interp.Interp(P, E_)          # fresh interpreter state per path
        if setup: setup(I)
        r = harness(I, H(I))
        return dict(result=r, fns=sorted(I.fns_run))

    recs = E.explore(body)
    shutil.rmtree(out_dir, ignore_errors=True)
    summ = dict(paths=0, ok=0, panics=[], violations=[], unmodelled=[], infeasible=0, queries=0,
                solver_s=0.0, wall_s=round(time.time() - t0, 2), functions=set(), samples=[], budget=False,
                forks=E.nforks.value, outcomes={}, ok_witnesses=[])
    for r in recs:
        s = r.get("status")
        summ["queries"] += r.get("queries", 0) or 0
        summ["solver_s"] += r.get("solver_s", 0) or 0
        if s == "infeasible": summ["infeasible"] += 1; continue
        if s == "budget": summ["budget"] = True; continue
        summ["paths"] += 1
        if s == "ok":
            summ["ok"] += 1
            info = r.get("info") or {}
            for f in info.get("fns", []): summ["functions"].add(f)
            res = info.get("result")
            key = res if isinstance(res, str) else (res[0] if isinstance(res, (list, tuple)) and res else "ok")
            summ["outcomes"][str(key)] = summ["outcomes"].get(str(key), 0) + 1
            if len(summ["samples"]) < 6: summ["samples"].append(dict(trace=r.get("trace"), result=res))
            if r.get("model") is not None and len(summ["ok_witnesses"]) < 40:
                summ["ok_witnesses"].append(dict(what="ok-path:" + str(key), model=r["model"], trace=r.get("trace"), extra=None))
        elif s == "panic": summ["panics"].append(r)
        elif s == "violation": summ["violations"].append(r)
        elif s == "unmodelled": summ["unmodelled"].append(r)
    summ["functions"] = sorted(summ["functions"])
    summ["solver_s"] = round(summ["solver_s"], 3)
    return summ
