"""Models of the std / core / alloc items the repo's MIR calls.  An unmodelled callee makes the
run inconclusive (interp.call raises Unmodelled) -- nothing is ever skipped."""
import re
import z3

from mir import strip_generics, split_top, parse_ty
from values import *     # noqa
import iters, colls

_LT = re.compile(r"<'\w+>|'\w+, |'\w+ |'\w+>")


def norm(callee):
    c = re.sub(r"::<'\w+>", "", callee)
    c = re.sub(r"<'\w+>", "", c)
    c = re.sub(r"'\w+, ", "", c)
    c = re.sub(r"&'\w+ ", "&", c)
    return c


_cache = {}


def call(I, callee, args, fr, dty):
    key = callee
    h = _cache.get(key)
    if h is None:
        h = _resolve(norm(callee))
        _cache[key] = h
    if h is NotImplemented:
        return NotImplemented
    return h(I, args, fr, dty)


def const_value(I, s, want_ty):
    if s.endswith("::MAX") or s.endswith("::MIN"):
        m = re.search(r"(u8|u16|u32|u64|usize|u128|i8|i16|i32|i64|isize|i128)", s)
        if m:
            t = m.group(1); b = INT_BITS[t]; sg = t[0] == "i"
            v = ((1 << (b - 1)) - 1 if sg else (1 << b) - 1) if s.endswith("MAX") else (-(1 << (b - 1)) if sg else 0)
            return Int(t, v)
    if "PhantomData" in s: return Agg("PhantomData", [])
    m = re.fullmatch(r"<(\w+) as bitflags::Bits>::(EMPTY|ALL)", s)
    if m:
        return Int(m.group(1), 0 if m.group(2) == "EMPTY" else (1 << INT_BITS[m.group(1)]) - 1)
    return None


# ------------------------------------------------------------------ helpers
def opt(I, v=None, some=False):
    d = I.P.std_enums["Option"]
    return EnumV(d, "Some", [Cell(v)]) if some else EnumV(d, "None", [])


def some(I, v): return opt(I, v, True)
def none(I): return opt(I)


def ok(I, v): return EnumV(I.P.std_enums["Result"], "Ok", [Cell(v)])
def err(I, v): return EnumV(I.P.std_enums["Result"], "Err", [Cell(v)])


def deref(v):
    while isinstance(v, Ref): v = v.cell.v
    return v


def as_slice(v):
    """anything slice-like -> SliceRef"""
    while True:
        if isinstance(v, SliceRef): return v
        if isinstance(v, Seq): return SliceRef(v, 0, len(v.cells))
        if isinstance(v, Ref): v = v.cell.v; continue
        if isinstance(v, Ptr): v = v.cell.v; continue
        if isinstance(v, Agg) and len(v.cells) == 1 and isinstance(v.cells[0].v, Seq):   # newtype deref
            v = v.cells[0].v; continue
        raise Unmodelled("not slice-like: " + type(v).__name__)


def usize(n): return Int("usize", n)


def try_from_int(I, a, ty):
    """TryFrom<int> for int: Ok(value) iff representable"""
    fits = int_fits(a, ty)
    if I.E.branch(fits, "tryfrom"):
        return ok(I, int_cast(a, ty))
    return err(I, Opaque("TryFromIntError"))


def val_eq(I, a, b):
    """structural equality as a Bool (py or z3)"""
    a, b = deref(a), deref(b)
    if isinstance(a, Int) and isinstance(b, Int): return int_binop("Eq", a, b)
    if isinstance(a, bool) or z3.is_bool(a): return b_eq(a, b)
    if isinstance(a, (Seq, SliceRef)) or isinstance(b, (Seq, SliceRef)):
        x, y = as_slice(a), as_slice(b)
        if len(x) != len(y): return False
        r = True
        for p, q in zip(x.cells(), y.cells()):
            r = b_and(r, val_eq(I, p.v, q.v))
            if r is False: return False
        return r
    if isinstance(a, Agg) and isinstance(b, Agg):
        r = True
        for p, q in zip(a.cells, b.cells):
            r = b_and(r, val_eq(I, p.v, q.v))
            if r is False: return False
        return r
    if isinstance(a, EnumV) and isinstance(b, EnumV):
        if a.variant != b.variant: return False
        r = True
        for p, q in zip(a.cells, b.cells):
            r = b_and(r, val_eq(I, p.v, q.v))
        return r
    if isinstance(a, Ptr) and isinstance(b, Ptr): return val_eq(I, a.cell.v, b.cell.v)
    if isinstance(a, StrV) and isinstance(b, StrV): return a.s == b.s
    if isinstance(a, Opaque) and isinstance(b, Opaque):
        if z3.is_expr(a.payload) and z3.is_expr(b.payload): return b_norm(a.payload == b.payload)
        return a.payload == b.payload and a.tag == b.tag
    if isinstance(a, SetV) and isinstance(b, SetV): return colls.set_eq(I, a, b)
    if isinstance(a, MapV) and isinstance(b, MapV): return colls.map_eq(I, a, b)
    if a is None and b is None: return True
    raise Unmodelled(f"eq on {type(a).__name__}/{type(b).__name__}")


def val_cmp(I, a, b):
    """three-way comparison -> 'Less'|'Equal'|'Greater' (forks where symbolic); lexicographic on sequences"""
    a, b = deref(a), deref(b)
    if isinstance(a, Int):
        lt = int_binop("Lt", a, b)
        if lt is True: return "Less"
        eq = int_binop("Eq", a, b)
        if eq is True: return "Equal"
        if lt is False and eq is False: return "Greater"
        i = I.E.fork([lt, eq, b_and(b_not(lt), b_not(eq))], "cmp")
        return ["Less", "Equal", "Greater"][i]
    if isinstance(a, bool) or z3.is_bool(a):
        return val_cmp(I, I._b2i(a), I._b2i(b))
    if isinstance(a, (Seq, SliceRef)):
        x, y = as_slice(a).cells(), as_slice(b).cells()
        for p, q in zip(x, y):
            r = val_cmp(I, p.v, q.v)
            if r != "Equal": return r
        return "Less" if len(x) < len(y) else ("Equal" if len(x) == len(y) else "Greater")
    if isinstance(a, Agg):
        for p, q in zip(a.cells, b.cells):
            r = val_cmp(I, p.v, q.v)
            if r != "Equal": return r
        return "Equal"
    if isinstance(a, EnumV):
        da, db = a.d.discr[a.variant], b.d.discr[b.variant]
        if da != db: return "Less" if da < db else "Greater"
        for p, q in zip(a.cells, b.cells):
            r = val_cmp(I, p.v, q.v)
            if r != "Equal": return r
        return "Equal"
    raise Unmodelled(f"cmp on {type(a).__name__}")


def ordering(I, name): return EnumV(I.P.std_enums["Ordering"], name, [])


def into_via_from(I, v, src_ty_txt, dst_ty, fr):
    """<A as Into<B>>::into(v)  ==  <B as From<A>>::from(v) when a repo impl exists"""
    if dst_ty is None: return NotImplemented
    dst = repr(dst_ty)
    f = I.P._find_trait_method(dst_ty.name if dst_ty.kind == "adt" else dst, f"From<{src_ty_txt}>", "from", fr.fn.crate)
    if f is None: return NotImplemented
    return I.run_fn(f, [v])


# ------------------------------------------------------------------ resolution
def _resolve(c):
    plain = strip_generics(c)
    import mir as _mir
    q = _mir.split_qualified(c)
    if q:
        selfty, trait, method = q
        tname = strip_generics(trait).split("::")[-1]
        h = _trait(selfty, trait, tname, method, c)
        return h
    segs = plain.split("::")
    last = segs[-1]
    head = segs[-2] if len(segs) >= 2 else ""
    return _inherent(head, last, plain, c)


def _trait(selfty, trait, tname, method, c):
    sp = strip_generics(selfty)
    if tname == "Try" and method == "branch": return t_branch
    if tname == "FromResidual":
        # <Result<T, E> as FromResidual<Result<Infallible, E2>>>: identity when E and E2 are the same type text
        mm = re.match(r"Result<(.*)>$", selfty)
        m2 = re.match(r"FromResidual<Result<(.*)>>$", trait)
        same = False
        if mm and m2:
            a, b = split_top(mm.group(1)), split_top(m2.group(1))
            same = len(a) == 2 and len(b) == 2 and a[1].strip() == b[1].strip()
        if same:
            return lambda I, a, fr, d: (none(I) if a[0].variant == "None" else err(I, a[0].cells[0].v))
        return t_from_residual
    if tname in ("Deref", "DerefMut", "Borrow", "AsRef", "AsMut", "BorrowMut") :
        return t_deref
    if tname == "Clone": return lambda I, a, fr, d: clone_deep(I, deref(a[0]))
    if tname == "ToOwned": return lambda I, a, fr, d: clone_deep(I, deref(a[0]))
    if tname == "PartialEq":
        if method == "eq": return lambda I, a, fr, d: val_eq(I, a[0], a[1])
        if method == "ne": return lambda I, a, fr, d: b_not(val_eq(I, a[0], a[1]))
    if tname in ("PartialOrd", "Ord"):
        if method == "cmp": return lambda I, a, fr, d: ordering(I, val_cmp(I, a[0], a[1]))
        if method == "partial_cmp": return lambda I, a, fr, d: some(I, ordering(I, val_cmp(I, a[0], a[1])))
        if method in ("lt", "le", "gt", "ge"):
            ok_set = {"lt": ("Less",), "le": ("Less", "Equal"), "gt": ("Greater",), "ge": ("Greater", "Equal")}[method]
            return lambda I, a, fr, d: val_cmp(I, a[0], a[1]) in ok_set
        if method in ("min", "max"):
            def mm(I, a, fr, d):
                r = val_cmp(I, a[0], a[1])
                if method == "min": return a[0] if r != "Greater" else a[1]
                return a[1] if r != "Greater" else a[0]
            return mm
        if method == "clamp":
            def cl(I, a, fr, d):
                x, lo, hi = a
                if val_cmp(I, lo, hi) == "Greater": raise Panic(f"assertion failed: min <= max (clamp) in {fr.fn.crate}::{fr.fn.name}")
                if val_cmp(I, x, lo) == "Less": return lo
                return hi if val_cmp(I, x, hi) == "Greater" else x
            return cl
    ARITH = {"Add": "add", "Sub": "sub", "Mul": "mul", "Div": "div", "Rem": "rem", "BitAnd": "bitand", "BitOr": "bitor", "BitXor": "bitxor",
             "Shl": "shl", "Shr": "shr", "Neg": "neg", "Not": "not"}
    ASSIGN = {k + "Assign": v + "_assign" for k, v in ARITH.items() if k not in ("Neg", "Not")}
    if (tname in ARITH or tname in ASSIGN) and re.fullmatch(r"&?(?:mut )?(u8|u16|u32|u64|usize|u128|i8|i16|i32|i64|isize|i128|bool)", sp.strip()):
        op = tname[:-6] if tname in ASSIGN else tname
        def ar(I, a, fr, d):
            x = deref(a[0]); y = deref(a[1]) if len(a) > 1 else None
            where = f"{fr.fn.crate}::{fr.fn.name}"
            if op == "Not": r = b_not(x) if not isinstance(x, Int) else (Int(x.ty, ~x.v) if x.concrete else mk_int(x.ty, ~x.v))
            elif op == "Neg":
                if I.E.branch(int_binop("Eq", x, Int(x.ty, 1 << (x.bits - 1))), "negmin"): raise Panic(f"attempt to negate with overflow in {where}")
                r = Int(x.ty, -x.v) if x.concrete else mk_int(x.ty, -x.v)
            elif not isinstance(x, Int):
                r = {"BitAnd": b_and, "BitOr": b_or, "BitXor": lambda p, q: b_not(b_eq(p, q))}[op](x, y)
            elif op in ("Add", "Sub", "Mul"):
                r, o = int_overflow_op(op, x, y)
                if I.E.branch(o, "ovf"): raise Panic(f"attempt to {dict(Add='add', Sub='subtract', Mul='multiply')[op]} with overflow in {where}")
            elif op in ("Div", "Rem"):
                if I.E.branch(int_binop("Eq", y, Int(y.ty, 0)), "divz"):
                    raise Panic(f"attempt to {'divide' if op == 'Div' else 'calculate the remainder with a divisor of zero'} by zero in {where}")
                if x.signed and I.E.branch(b_and(int_binop("Eq", x, Int(x.ty, 1 << (x.bits - 1))), int_binop("Eq", y, Int(y.ty, -1))), "minneg"):
                    raise Panic(f"attempt to {'divide' if op == 'Div' else 'calculate the remainder'} with overflow in {where}")
                r = int_binop(op, x, y)
            elif op in ("Shl", "Shr"):
                if I.E.branch(b_or(int_binop("Ge", y, Int(y.ty, x.bits)), int_binop("Lt", y, Int(y.ty, 0)) if y.signed else False), "shovf"):
                    raise Panic(f"attempt to shift {'left' if op == 'Shl' else 'right'} with overflow in {where}")
                r = int_binop(op, x, y)
            else:
                r = int_binop(op, x, y)
            if tname in ASSIGN:
                a[0].cell.v = r; return unit()
            return r
        return ar
    if tname == "Hash" and method == "hash": return lambda I, a, fr, d: unit()
    if tname == "Default" and method == "default": return lambda I, a, fr, d: default_of(I, parse_ty(selfty), fr)
    if tname == "TryFrom" and sp.endswith("RecoveryId"):
        return lambda I, a, fr, d: colls.foreign_call(I, "rid_try_from", a, fr, d)
    if tname in ("From", "Into") and ("RecoveryId" in selfty or "RecoveryId" in trait) and ("i32" in selfty or "i32" in trait):
        return lambda I, a, fr, d: colls.foreign_call(I, "rid_to_i32", a, fr, d)
    if tname in ("TryFrom",) and method == "try_from":
        t = parse_ty(selfty)
        if t.kind == "int":
            return lambda I, a, fr, d: try_from_int(I, a[0], t.name) if isinstance(a[0], Int) else NotImplemented
        if t.kind == "array":
            return lambda I, a, fr, d: colls.array_try_from(I, a[0], t)
    if tname == "TryInto" and method == "try_into":
        def ti(I, a, fr, d):
            # result type from the destination: Result<T, E>
            if d is not None and d.kind == "adt" and d.args:
                t = d.args[0]
                if t.kind == "int" and isinstance(a[0], Int): return try_from_int(I, a[0], t.name)
                if t.kind == "array": return colls.array_try_from(I, a[0], t)
                if t.kind == "adt":
                    f = I.P._find_trait_method(t.name, f"TryFrom<{selfty}>", "try_from", fr.fn.crate)
                    if f is not None: return I.run_fn(f, [a[0]])
            return NotImplemented
        return ti
    if tname == "From" and method == "from":
        t = parse_ty(selfty)
        if t.kind == "int": return lambda I, a, fr, d: (int_cast(a[0], t.name) if isinstance(a[0], Int) else int_cast(I._b2i(a[0]), t.name))
        if sp in ("Vec", "std::vec::Vec"): return lambda I, a, fr, d: colls.vec_from(I, a[0])
        if sp in ("Arc", "Box", "Rc", "std::sync::Arc"): return lambda I, a, fr, d: Ptr(Cell(a[0]), sp.split("::")[-1].lower())
        return lambda I, a, fr, d: a[0] if False else NotImplemented
    if tname == "Into" and method == "into":
        targ_m = re.match(r"[\w:]+<(.*)>$", trait)
        targ_ty = parse_ty(targ_m.group(1)) if targ_m else None

        def into(I, a, fr, d):
            v = a[0]
            if d is None: d = targ_ty
            if d is None: return NotImplemented
            if d.kind == "int":
                if isinstance(v, Int): return int_cast(v, d.name)
                if isinstance(v, bool) or z3.is_bool(v): return int_cast(I._b2i(v), d.name)
                if isinstance(v, (EnumV, Agg)):
                    f = I.P._find_trait_method(d.name, f"From<{selfty}>", "from", fr.fn.crate)
                    if f is not None: return I.run_fn(f, [v])
            if d.kind == "array" and isinstance(deref(v), Seq): return v
            if d.kind == "array" and isinstance(v, Opaque): return colls.opaque_to_array(I, v, d)
            if d.kind == "adt" and d.last() == "Vec":
                if isinstance(v, Agg) and len(v.cells) == 1 and isinstance(v.cells[0].v, Seq): return v.cells[0].v
                return colls.vec_from(I, v)
            r = into_via_from(I, v, selfty, d, fr)
            if r is not NotImplemented: return r
            if d.kind == "adt" and d.last() in ("Arc", "Box", "Rc"): return Ptr(Cell(v), d.last().lower())
            # same type / newtype-free conversions
            if isinstance(v, (Agg, EnumV)) and d.kind == "adt" and (getattr(v, "name", None) or v.d.name).split("::")[-1] == d.last():
                return v
            return NotImplemented
        return into
    if tname == "Index" or tname == "IndexMut":
        return colls.index
    if tname in ("Iterator", "DoubleEndedIterator", "ExactSizeIterator", "ParallelIterator", "IndexedParallelIterator"):
        return iters.method(method, c)
    if tname in ("IntoParallelIterator", "IntoParallelRefIterator", "IntoParallelRefMutIterator", "ParallelBridge"):
        def ipi(I, a, fr, d):
            it = iters.to_iter(I, a[0])
            it.d["par"] = True
            if tname == "ParallelBridge": it.d["unordered"] = True
            return it
        return ipi
    if tname in ("IntoIterator",):
        return iters.into_iter
    if tname == "FromIterator": return iters.method("collect_from", c)
    if tname == "Extend" and method == "extend": return colls.extend
    if tname in ("FnOnce", "FnMut", "Fn"):
        return lambda I, a, fr, d: I.call_value(a[0], [c.v for c in a[1].cells] if isinstance(a[1], Agg) else [a[1]])
    if tname == "AddAssign":
        def aa(I, a, fr, d):
            r, o = int_overflow_op("Add", a[0].cell.v, deref(a[1]))
            if not I.E.branch(b_not(o), "ovf"): raise Panic("attempt to add with overflow (AddAssign)")
            a[0].cell.v = r; return unit()
        return aa
    if tname == "BitOrAssign":
        def bo(I, a, fr, d):
            x = a[0].cell.v
            y = deref(a[1])
            a[0].cell.v = b_or(x, y) if not isinstance(x, Int) else int_binop("BitOr", x, y); return unit()
        return bo
    if tname == "Sum" or tname == "Product": return iters.method("sum_from", c)
    if tname == "AsDynError": return lambda I, a, fr, d: a[0]
    if tname == "Error" and method == "source": return lambda I, a, fr, d: none(I)
    if tname == "Digest": return colls.digest(method)
    if tname == "Verifier" and method == "verify": return colls.ed_verify
    if tname == "ToString" or (tname == "Display" and method == "to_string"):
        return lambda I, a, fr, d: (deref(a[0]) if isinstance(deref(a[0]), StrV) else Opaque("String"))
    return NotImplemented


def t_deref(I, a, fr, d):
    v = a[0]
    inner = deref(v)
    if isinstance(inner, Seq): return SliceRef(inner, 0, len(inner.cells))
    if isinstance(inner, SliceRef): return inner
    if isinstance(inner, Ptr): return Ref(inner.cell)
    if isinstance(inner, Agg) and len(inner.cells) == 1:
        # newtype Deref (Stack -> Vec<Word>, Memory -> [Word]); honour the declared target
        t = inner.cells[0].v
        if d is not None and d.kind == "ref" and d.args[0].kind == "slice" and isinstance(t, Seq):
            return SliceRef(t, 0, len(t.cells))
        return Ref(inner.cells[0])
    if isinstance(inner, Opaque) and inner.tag == "MutexGuard": return Ref(inner.payload)
    if isinstance(inner, StrV): return inner
    raise Unmodelled("deref of " + type(inner).__name__)


def t_branch(I, a, fr, d):
    x = a[0]
    cf = I.P.std_enums["ControlFlow"]
    if x.variant in ("Some", "Ok"): return EnumV(cf, "Continue", [Cell(x.cells[0].v)])
    return EnumV(cf, "Break", [Cell(EnumV(x.d, x.variant, list(x.cells)))])


def t_from_residual(I, a, fr, d):
    x = a[0]
    if x.variant == "None": return none(I)
    # Err(e) -> Err(From::from(e)) : conversion between error types through the repo's From impls
    e = x.cells[0].v
    while isinstance(e, Opaque) and e.tag == "ConvertedError": e = e.payload      # lazily converted (generic E): convert the source
    if d is not None and d.kind == "adt" and len(d.args) == 2:
        et = d.args[1]
        if et.kind in ("proj",) or (et.kind == "adt" and et.name in I.tybind):
            et = parse_ty(I._subst(et.name))
        name = None
        if isinstance(e, EnumV): name = e.d.name
        elif isinstance(e, Agg) and e.name: name = e.name.split("::")[-1]
        elif isinstance(e, Opaque): name = e.tag
        if et.kind == "adt" and name is not None and et.last() != name:
            f = None
            try:
                f = I.P._find_trait_method(et.name, f"From<{name}>", "from", fr.fn.crate)
            except Unmodelled:
                f = None
            if f is not None:
                return err(I, I.run_fn(f, [e]))
            if re.fullmatch(r"[A-Z]\w{0,3}", et.name) and I.P.enum_for_type(et, fr.fn.crate) is None:
                # target is a generic type parameter (E: From<..>): the conversion is resolved lazily where the
                # concrete type is known (see Interp.resolve_converted)
                return err(I, Opaque("ConvertedError", e))
            raise Unmodelled(f"error conversion {name} -> {et!r} (From impl not found) in {fr.fn.crate}::{fr.fn.name}")
    return err(I, e)


def clone_deep(I, v):
    if isinstance(v, Ptr) and v.kind in ("arc", "rc"):
        if isinstance(v.rc.v, int): v.rc.v += 1
        return v
    if isinstance(v, (Agg, EnumV)) :
        nm = v.name if isinstance(v, Agg) else v.d.name
        # repo types with a hand-written Clone would have resolved to MIR; derive(Clone) is structural
    return clone_val(v)


def default_of(I, t, fr):
    if t.kind == "int": return Int(t.name, 0)
    if t.kind == "bool": return False
    if t.kind == "array": return Seq([Cell(default_of(I, t.args[0], fr)) for _ in range(t.n)], "array")
    if t.kind == "tuple": return Agg(None, [Cell(default_of(I, x, fr)) for x in t.args])
    if t.kind == "adt":
        l = t.last()
        if l == "Vec": return Seq([], "vec")
        if l == "String": return Seq([], "string")
        if l in ("HashMap",): return MapV("hash")
        if l in ("BTreeMap",): return MapV("btree")
        if l in ("HashSet",): return SetV("hash")
        if l in ("BTreeSet",): return SetV("btree")
        if l == "Option": return none(I)
        if l == "PhantomData": return Agg("PhantomData", [])
        if l == "OnceLock": return Agg("OnceLock", [Cell(none(I))])
        if l in ("Arc", "Box", "Rc"): return Ptr(Cell(default_of(I, t.args[0], fr)), l.lower())
        f = I.P._find_trait_method(t.name, "Default", "default", fr.fn.crate)
        if f is not None: return I.run_fn(f, [])
    raise Unmodelled("Default for " + repr(t))


# ------------------------------------------------------------------ inherent functions
def _inherent(head, last, plain, c):
    if head in ("Option",) or plain.startswith(("std::option::Option::", "core::option::Option::")):
        return colls.option_method(last)
    if head == "Result" or plain.startswith(("std::result::Result::", "core::result::Result::")):
        return colls.result_method(last)
    if plain.startswith("core::bool::") or head == "bool":
        if last == "then_some":
            return lambda I, a, fr, d: (some(I, a[1]) if I.E.branch(a[0], "then_some") else none(I))
        if last == "then":
            return lambda I, a, fr, d: (some(I, I.call_value(a[1], [])) if I.E.branch(a[0], "then") else none(I))
    if plain.startswith("core::num::") or re.match(r"^(u8|u16|u32|u64|usize|u128|i8|i16|i32|i64|isize|i128)::", plain):
        return colls.num_method(last, c)
    if head == "Vec" or plain.startswith("std::vec::Vec::"):
        return colls.vec_method(last, c)
    if plain.startswith(("core::slice::", "std::slice::", "slice::")) or head == "slice":
        return colls.slice_method(last, c)
    if plain in ("std::array::from_fn", "core::array::from_fn"):
        def afn(I, a, fr, d):
            m = re.search(r"from_fn::<[^,]+, (\d+)", c)
            n = int(m.group(1)) if m else (d.args[1] if d is not None and d.kind == "array" else None)
            if not isinstance(n, int): raise Unmodelled("array::from_fn of unknown length: " + c)
            return Seq([Cell(I.call_value(a[0], [usize(i)])) for i in range(n)], "array")
        return afn
    if (head == "array" or plain.startswith(("std::array::", "core::array::"))) and last == "map":
        def amap(I, a, fr, d):
            return Seq([Cell(I.call_value(a[1], [cc.v])) for cc in deref(a[0]).cells], "array")
        return amap
    if plain.startswith(("std::array::", "core::array::")):
        return colls.slice_method(last, c)
    if head in ("HashMap", "BTreeMap") or "hash_map::" in plain or "btree_map::" in plain:
        return colls.map_method(head, last, plain)
    if head in ("HashSet", "BTreeSet"):
        return colls.set_method(head, last)
    if head in ("Arc", "Box", "Rc") or plain.startswith("std::boxed::"):
        return colls.ptr_method(head, last, plain)
    if head == "Range" and last == "contains":
        def rc(I, a, fr, d):
            r = deref(a[0]); x = deref(a[1])
            return b_and(int_binop("Le", r.cells[0].v, x), int_binop("Lt", x, r.cells[1].v))
        return rc
    if head == "RangeInclusive" or "ops::RangeInclusive::" in plain:
        def rinc(I, a, fr, d):
            if last == "new": return Agg("std::ops::RangeInclusive", [Cell(a[0]), Cell(a[1]), Cell(False)])
            r = deref(a[0])
            if last == "start": return Ref(r.cells[0])
            if last == "end": return Ref(r.cells[1])
            if last == "into_inner": return Agg(None, [Cell(r.cells[0].v), Cell(r.cells[1].v)])
            if last == "is_empty": return b_not(int_binop("Le", r.cells[0].v, r.cells[1].v))
            if last == "contains":
                x = deref(a[1])
                return b_and(int_binop("Le", r.cells[0].v, x), int_binop("Le", x, r.cells[1].v))
            raise Unmodelled("RangeInclusive::" + last)
        return rinc
    if head in ("RangeFrom", "RangeTo", "RangeToInclusive") and last == "contains":
        def rc2(I, a, fr, d):
            r = deref(a[0]); x = deref(a[1])
            if head == "RangeFrom": return int_binop("Le", r.cells[0].v, x)
            return int_binop("Lt" if head == "RangeTo" else "Le", x, r.cells[0].v)
        return rc2
    if (head == "Range" or "ops::Range::" in plain) and last in ("is_empty", "len"):
        def rie(I, a, fr, d):
            r = deref(a[0])
            lo, hi = r.cells[0].v, r.cells[1].v
            if last == "is_empty": return b_not(int_binop("Lt", lo, hi))
            if I.E.branch(int_binop("Lt", lo, hi), "range_len"): return int_binop("Sub", hi, lo)
            return Int(lo.ty, 0)
        return rie
    if plain in ("std::mem::drop", "core::mem::drop", "drop") and "::" in plain or plain == "drop":
        def dr(I, a, fr, d):
            I.drop(a[0]); return unit()
        return dr
    if plain in ("std::mem::forget", "core::mem::forget"):
        return lambda I, a, fr, d: unit()
    if plain in ("std::mem::take", "core::mem::take"):
        def take(I, a, fr, d):
            cell = a[0].cell
            v = cell.v
            t = d
            cell.v = default_like(I, v)
            return v
        return take
    if plain in ("std::mem::replace", "core::mem::replace"):
        def repl(I, a, fr, d):
            v = a[0].cell.v; a[0].cell.v = a[1]; return v
        return repl
    if plain in ("std::mem::swap", "core::mem::swap"):
        def sw(I, a, fr, d):
            a[0].cell.v, a[1].cell.v = a[1].cell.v, a[0].cell.v; return unit()
        return sw
    if plain in ("std::mem::size_of", "core::mem::size_of"):
        def so(I, a, fr, d):
            m = re.search(r"size_of::<(.+)>$", c)
            t = parse_ty(m.group(1))
            if t.kind == "int": return usize(INT_BITS[t.name] // 8)
            tt = parse_ty(I._subst(m.group(1)))
            if tt.kind == "adt" and tt.name in ("essential_asm::Op", "op::Op", "Op"): return usize(16)
            return usize(colls.size_of(tt))
        return so
    if plain in ("std::cmp::max", "core::cmp::max", "std::cmp::min", "core::cmp::min"):
        mx = plain.endswith("max")
        def cm(I, a, fr, d):
            r = val_cmp(I, a[0], a[1])
            if mx: return a[1] if r != "Greater" else a[0]
            return a[0] if r != "Greater" else a[1]
        return cm
    if head == "Ordering" or plain.startswith(("std::cmp::Ordering::", "core::cmp::Ordering::")):
        def ordm(I, a, fr, d):
            o = deref(a[0]).variant
            if last == "is_lt": return o == "Less"
            if last == "is_le": return o != "Greater"
            if last == "is_gt": return o == "Greater"
            if last == "is_ge": return o != "Less"
            if last == "is_eq": return o == "Equal"
            if last == "is_ne": return o != "Equal"
            if last == "reverse": return ordering(I, {"Less": "Greater", "Greater": "Less", "Equal": "Equal"}[o])
            if last == "then": return a[1] if o == "Equal" else a[0]
            if last == "then_with": return I.call_value(a[1], []) if o == "Equal" else a[0]
            raise Unmodelled("Ordering::" + last)
        return ordm
    if plain in ("std::hint::must_use", "core::hint::must_use", "must_use", "std::hint::black_box", "core::hint::black_box", "black_box",
                 "std::convert::identity", "core::convert::identity", "identity"):
        return lambda I, a, fr, d: a[0]
    if plain in ("std::iter::repeat", "core::iter::repeat", "std::iter::repeat_n", "core::iter::repeat_n", "std::iter::repeat_with", "core::iter::repeat_with",
                 "repeat", "repeat_n", "repeat_with"):
        def rep(I, a, fr, d):
            if plain.endswith("repeat_n"):
                n = a[1].v if a[1].concrete else I.E.concretize(a[1], cap=4200, label="repeat_n")
                return Iter("list", xs=[clone_val(a[0]) for _ in range(n)], i=0)
            if plain.endswith("repeat_with"): return Iter("from_fn", f=PyFn(lambda I_, : some(I_, I_.call_value(a[0], [])), "repeat_with"))
            return Iter("from_fn", f=PyFn(lambda I_, : some(I_, clone_val(a[0])), "repeat"))
        return rep
    if plain in ("std::iter::from_fn", "core::iter::from_fn"):
        return lambda I, a, fr, d: Iter("from_fn", f=a[0])
    if plain in ("once", "std::iter::once", "core::iter::once"):
        return lambda I, a, fr, d: Iter("list", xs=[a[0]], i=0)
    if plain in ("std::iter::empty", "core::iter::empty"):
        return lambda I, a, fr, d: Iter("list", xs=[], i=0)
    if plain in ("panic", "std::rt::begin_panic", "core::panicking::panic", "core::panicking::panic_fmt",
                 "std::rt::panic_fmt", "core::panicking::panic_explicit", "core::panicking::unreachable_display"):
        def pn(I, a, fr, d):
            msg = a[0].s if a and isinstance(a[0], StrV) else "explicit panic"
            raise Panic(f"{msg} in {fr.fn.crate}::{fr.fn.name}")
        return pn
    if last in ("assert_failed", "panic_bounds_check", "unwrap_failed", "expect_failed"):
        def pn2(I, a, fr, d):
            raise Panic(f"{last} in {fr.fn.crate}::{fr.fn.name}")
        return pn2
    if plain.startswith(("std::fmt::", "core::fmt::", "alloc::fmt::", "std::fmt::Arguments", "core::fmt::rt::")) or head in ("Arguments", "Argument", "Formatter"):
        return lambda I, a, fr, d: Opaque("fmt")
    if plain in ("format", "std::fmt::format", "alloc::fmt::format"):
        return lambda I, a, fr, d: Opaque("String")
    if head == "OnceLock" and last == "get_or_init":
        def goi(I, a, fr, d):
            ol = deref(a[0])
            cur = ol.cells[0].v
            if cur.variant == "None":
                v = I.call_value(a[1], [])
                ol.cells[0].v = some(I, v)
            return Ref(ol.cells[0].v.cells[0])
        return goi
    if head == "Flag":
        if last == "new": return lambda I, a, fr, d: Agg("Flag", [Cell(a[0]), Cell(a[1])])
        if last == "value": return lambda I, a, fr, d: Ref(deref(a[0]).cells[1])
        if last == "name": return lambda I, a, fr, d: deref(a[0]).cells[0].v
    if head == "Atomic" or head.startswith("Atomic") and head[6:] in ("Bool", "Usize", "Isize", "U8", "U16", "U32", "U64", "I8", "I16", "I32", "I64"):
        def atom(I, a, fr, d):
            if last == "new": return Agg(head, [Cell(a[0])])
            at = deref(a[0])
            cur = at.cells[0].v
            if last == "load": return cur
            if last == "into_inner": return cur
            if last == "get_mut": return Ref(at.cells[0])
            if last == "store":
                at.cells[0].v = a[1]; return unit()
            if last == "swap":
                at.cells[0].v = a[1]; return cur
            if last.startswith("fetch_"):
                op = last[6:]
                x = a[1]
                if isinstance(cur, Int):
                    nv = {"add": lambda: int_binop("Add", cur, x), "sub": lambda: int_binop("Sub", cur, x), "and": lambda: int_binop("BitAnd", cur, x),
                          "or": lambda: int_binop("BitOr", cur, x), "xor": lambda: int_binop("BitXor", cur, x),
                          "max": lambda: (cur if val_cmp(I, cur, x) != "Less" else x), "min": lambda: (cur if val_cmp(I, cur, x) != "Greater" else x)}[op]()
                else:
                    nv = {"and": lambda: b_and(cur, x), "or": lambda: b_or(cur, x), "xor": lambda: b_not(b_eq(cur, x)), "nand": lambda: b_not(b_and(cur, x))}[op]()
                at.cells[0].v = nv
                return cur
            if last in ("compare_exchange", "compare_exchange_weak"):
                same = val_eq(I, cur, a[1])
                same = same if isinstance(same, bool) else I.E.branch(same, "cas")
                if same:
                    at.cells[0].v = a[2]; return ok(I, cur)
                return err(I, cur)
            raise Unmodelled(f"{head}::{last}")
        return atom
    if head == "Condvar":
        def cv(I, a, fr, d):
            if last == "new": return Agg("Condvar", [])
            if last in ("notify_one", "notify_all"): return unit()
            if last == "wait": return ok(I, a[1])          # a spurious wake-up, which std allows: the caller's loop re-checks its condition
            raise Unmodelled(f"Condvar::{last} (would block in a single-threaded trace)")
        return cv
    if head == "Mutex":
        return colls.mutex_method(last)
    if head == "String" or plain.startswith("std::string::String::"):
        return colls.string_method(last)
    if head == "str" or plain.startswith("core::str::"):
        return colls.str_method(last)
    return colls.foreign(plain, head, last, c)


def default_like(I, v):
    if isinstance(v, Seq): return Seq([], v.kind)
    if isinstance(v, MapV): return MapV(v.kind)
    if isinstance(v, SetV): return SetV(v.kind)
    if isinstance(v, Int): return Int(v.ty, 0)
    if isinstance(v, bool): return False
    if isinstance(v, EnumV) and v.d.name == "Option": return none(I)
    if isinstance(v, Agg) and v.name and all(isinstance(c.v, (Seq, MapV, SetV, Int, bool)) for c in v.cells):
        return Agg(v.name, [Cell(default_like(I, c.v)) for c in v.cells])
    raise Unmodelled("mem::take of " + type(v).__name__)
