"""Enum definitions (variant order / explicit discriminants) and crate-root re-exports, read
from `-Zunpretty=expanded` output (post-macro source) of each repo crate."""
import re


class EnumDef:
    __slots__ = ("crate", "path", "variants", "discr", "index")

    def __init__(self, crate, path):
        self.crate, self.path = crate, path
        self.variants = []          # names in declaration order
        self.discr = {}             # name -> discriminant value
        self.index = {}             # name -> position

    @property
    def name(self):
        return self.path.split("::")[-1]

    def by_discr(self, d):
        for k, v in self.discr.items():
            if v == d: return k
        return None

    def __repr__(self):
        return f"<enum {self.crate}::{self.path}>"


def _strip(src):
    """Remove comments, string/char literals (replaced by placeholders) so that brace matching is safe."""
    out, i, n = [], 0, len(src)
    while i < n:
        ch = src[i]
        if src.startswith("//", i):
            j = src.find("\n", i)
            i = n if j < 0 else j
            continue
        if src.startswith("/*", i):
            j = src.find("*/", i + 2)
            i = n if j < 0 else j + 2
            continue
        if ch == '"':
            j = i + 1
            while j < n and src[j] != '"':
                j += 2 if src[j] == "\\" else 1
            out.append('""'); i = j + 1
            continue
        if ch == "r" and re.match(r'r#*"', src[i:i + 6]) and (i == 0 or not (src[i - 1].isalnum() or src[i - 1] == "_")):
            m = re.match(r'r(#*)"', src[i:])
            end = src.find('"' + m.group(1), i + len(m.group(0)))
            out.append('""'); i = (n if end < 0 else end + 1 + len(m.group(1)))
            continue
        if ch == "'":
            m = re.match(r"'(\\.|\\x..|\\u\{[0-9a-fA-F]+\}|[^'\\])'", src[i:])
            if m:
                out.append("' '"); i += m.end()
                continue
        out.append(ch); i += 1
    return "".join(out)


def _match_brace(s, i):
    depth = 0
    for j in range(i, len(s)):
        if s[j] == "{": depth += 1
        elif s[j] == "}":
            depth -= 1
            if depth == 0: return j
    return len(s) - 1


STRUCTS = {}     # (crate, Name) -> list of field type strings


def parse_expanded(path, crate):
    """Returns (enums: {modpath::Name: EnumDef}, reexports: list of (src_path, alias or '*'))."""
    src = _strip(open(path).read())
    enums = {}
    reexports = []
    for m in re.finditer(r"\bstruct\s+(\w+)\s*(?:<[^{(;]*>)?\s*(\{|\()", src):
        b = m.end() - 1
        e = _match_brace(src, b) if src[b] == "{" else _match_paren(src, b)
        body = src[b + 1:e]
        fields = []
        for part in _split0(body):
            part = re.sub(r"#\s*\[[^\]]*(\[[^\]]*\][^\]]*)*\]", " ", part, flags=re.S).strip()
            part = re.sub(r"^pub(\([^)]*\))?\s+", "", part)
            if not part: continue
            if src[b] == "{":
                if ":" not in part: continue
                part = part.split(":", 1)[1].strip()
            fields.append(part)
        STRUCTS[(crate, m.group(1))] = fields

    def walk(text, mod):
        pos = 0
        item = re.compile(r"\b(?:(pub(?:\([^)]*\))?)\s+)?(mod|enum|use)\s+", re.S)
        while True:
            m = item.search(text, pos)
            if not m: break
            kind = m.group(2)
            if kind == "mod":
                mm = re.match(r"(\w+)\s*\{", text[m.end():])
                if not mm:
                    pos = m.end(); continue
                b = m.end() + mm.end() - 1
                e = _match_brace(text, b)
                walk(text[b + 1:e], mod + [mm.group(1)])
                pos = e + 1
            elif kind == "enum":
                mm = re.match(r"(\w+)\s*(?:<[^{]*>)?\s*(?:where[^{]*)?\{", text[m.end():])
                if not mm:
                    pos = m.end(); continue
                b = m.end() + mm.end() - 1
                e = _match_brace(text, b)
                d = EnumDef(crate, "::".join(mod + [mm.group(1)]))
                _variants(text[b + 1:e], d)
                enums[d.path] = d
                pos = e + 1
            else:
                e = text.find(";", m.end())
                if m.group(1) and not mod:
                    _use(text[m.end():e].strip(), reexports)
                pos = e + 1

    walk(src, [])
    return enums, reexports


def _match_paren(s, i):
    depth = 0
    for j in range(i, len(s)):
        if s[j] == "(": depth += 1
        elif s[j] == ")":
            depth -= 1
            if depth == 0: return j
    return len(s) - 1


def _split0(body):
    depth, cur, parts = 0, [], []
    for i, ch in enumerate(body):
        if ch in "([{<": depth += 1
        elif ch in ")]}" or (ch == ">" and body[i - 1] not in "-="): depth -= 1
        if ch == "," and depth == 0:
            parts.append("".join(cur)); cur = []
        else:
            cur.append(ch)
    parts.append("".join(cur))
    return parts


def _variants(body, d):
    # split at depth-0 commas
    depth, cur, parts = 0, [], []
    for ch in body:
        if ch in "([{<": depth += 1
        elif ch in ")]}>": depth -= 1
        if ch == "," and depth == 0:
            parts.append("".join(cur)); cur = []
        else:
            cur.append(ch)
    parts.append("".join(cur))
    nxt = 0
    for p in parts:
        p = re.sub(r"#\s*\[[^\]]*(\[[^\]]*\][^\]]*)*\]", " ", p, flags=re.S).strip()
        if not p: continue
        m = re.match(r"(\w+)", p)
        name = m.group(1)
        mm = re.search(r"=\s*(0x[0-9a-fA-F_]+?|-?\d[\d_]*?)_?(?:[iu](?:8|16|32|64|128|size))?\s*$", p)
        if mm:
            nxt = int(mm.group(1).replace("_", ""), 0)
        d.index[name] = len(d.variants)
        d.variants.append(name)
        d.discr[name] = nxt
        nxt += 1


def _use(txt, out):
    # `op::{Op, *}` / `opcode::{A, B as C}` / `essential_types::Word`
    txt = re.sub(r"\s+", " ", txt)
    m = re.match(r"([\w:]+)::\{(.*)\}$", txt)
    if m:
        base = m.group(1)
        for it in m.group(2).split(","):
            it = it.strip()
            if not it: continue
            if it == "*": out.append((base, "*", None))
            elif " as " in it:
                a, b = it.split(" as ")
                out.append((base, a.strip(), b.strip()))
            else:
                out.append((base, it, it))
        return
    m = re.match(r"([\w:]+)::\*$", txt)
    if m:
        out.append((m.group(1), "*", None)); return
    m = re.match(r"([\w:]+)::(\w+)(?: as (\w+))?$", txt)
    if m:
        out.append((m.group(1), m.group(2), m.group(3) or m.group(2)))


STD_ENUMS = {
    "Option": ["None", "Some"],
    "Result": ["Ok", "Err"],
    "ControlFlow": ["Continue", "Break"],
    "Ordering": ["Less", "Equal", "Greater"],
    "Entry": ["Vacant", "Occupied"],
    "Bound": ["Included", "Excluded", "Unbounded"],
    "Cow": ["Borrowed", "Owned"],
    "Infallible": [],
}


def std_enum(name):
    d = EnumDef("std", name)
    for i, v in enumerate(STD_ENUMS[name]):
        d.variants.append(v); d.index[v] = i; d.discr[v] = i
    if name == "Ordering":
        d.discr = {"Less": -1, "Equal": 0, "Greater": 1}
    return d
