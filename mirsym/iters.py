"""Lazy iterator objects and the Iterator / IntoIterator methods used by the repo."""
import re
import z3

from mir import parse_ty
from values import *     # noqa

END = object()


def S():
    import stdmodels
    return stdmodels


def deref(v):
    while isinstance(v, Ref): v = v.cell.v
    return v


def to_iter(I, v):
    """IntoIterator::into_iter by runtime value"""
    import colls
    if isinstance(v, Iter): return v
    if isinstance(v, Ref):
        inner = deref(v)
        if isinstance(inner, Iter): return inner             # &mut iter
        if isinstance(inner, Seq): return Iter("slice", s=SliceRef(inner, 0, len(inner.cells)), i=0, hi=len(inner.cells))
        if isinstance(inner, SliceRef): return Iter("slice", s=inner, i=inner.lo, hi=inner.hi)
        if isinstance(inner, MapV):
            items = colls.sorted_items(I, inner) if inner.kind == "btree" else colls.hash_order(I, list(inner.items))
            return Iter("list", xs=[Agg(None, [Cell(Ref(Cell(k))), Cell(Ref(c))]) for k, c in items], i=0)
        if isinstance(inner, SetV):
            return Iter("list", xs=[Ref(Cell(k)) for k in colls.sorted_keys(I, inner)], i=0)
        if isinstance(inner, Agg) and len(inner.cells) == 1 and isinstance(inner.cells[0].v, Seq):
            s = inner.cells[0].v
            return Iter("slice", s=SliceRef(s, 0, len(s.cells)), i=0, hi=len(s.cells))
        if isinstance(inner, EnumV) and inner.d.name == "Option":
            return Iter("list", xs=[Ref(c) for c in inner.cells], i=0)
    if isinstance(v, SliceRef): return Iter("slice", s=v, i=v.lo, hi=v.hi)
    if isinstance(v, Seq): return Iter("owned", cells=list(v.cells), i=0)
    if isinstance(v, Agg) and v.name and v.name.split("::")[-1] in ("Range",):
        return Iter("range", lo=Cell(v.cells[0].v), hi=v.cells[1].v)
    if isinstance(v, Agg) and v.name and v.name.split("::")[-1] in ("RangeFrom",):
        return Iter("range", lo=Cell(v.cells[0].v), hi=None)
    if isinstance(v, Agg) and v.name and v.name.split("::")[-1] in ("RangeInclusive",):
        return Iter("range", lo=Cell(v.cells[0].v), hi=int_binop("Add", v.cells[1].v, Int(v.cells[1].v.ty, 1)))
    if isinstance(v, EnumV) and v.d.name == "Option":
        return Iter("list", xs=[c.v for c in v.cells], i=0)
    if isinstance(v, MapV):
        items = colls.sorted_items(I, v) if v.kind == "btree" else colls.hash_order(I, list(v.items))
        return Iter("list", xs=[Agg(None, [Cell(k), Cell(c.v)]) for k, c in items], i=0)
    if isinstance(v, SetV): return Iter("list", xs=colls.sorted_keys(I, v), i=0)
    if isinstance(v, Agg) and v.name and len(v.cells) == 1 and isinstance(v.cells[0].v, Seq):
        return Iter("owned", cells=list(v.cells[0].v.cells), i=0)
    if isinstance(v, (EnumV, Agg)):
        nm = v.d.path if isinstance(v, EnumV) else v.name
        if nm:
            for c in I.P.fns:
                try:
                    f = I.P._find_trait_method(nm, "Iterator", "next", c)
                except Unmodelled:
                    f = None
                if f is not None:
                    return Iter("repo", obj=Cell(v), f=f)
    hook = getattr(I, "into_iter_hook", None)
    if hook:
        r = hook(I, v)
        if r is not None: return r
    raise Unmodelled("into_iter of " + type(v).__name__ + (" " + str(getattr(v, "name", ""))))


PAR_LAZY = ("map", "filter", "filter_map", "flat_map", "flatten", "flat_map_iter", "enumerate", "copied", "cloned", "zip", "chain", "rev",
            "take", "skip", "map_while", "take_while", "inspect", "with_min_len", "with_max_len", "by_ref", "into_iter", "into_par_iter",
            "par_iter", "par_iter_mut", "peekable", "fuse", "next", "next_back", "size_hint", "len")
_CLOSURE_ADAPTORS = ("map", "filter", "filter_map", "flat_map")


def is_par(it):
    seen = 0
    while isinstance(it, Iter) and seen < 50:
        seen += 1
        if it.d.get("par"): return True
        nxt = it.d.get("inner")
        if nxt is None and it.kind in ("zip", "chain"): nxt = it.d.get("a")
        it = nxt
    return False


def _perm(I, k):
    if k <= 1: return list(range(k))
    if k == 2: return [[0, 1], [1, 0]][I.E.choose(2, "par_order")]
    if k == 3:
        import itertools
        return list(list(itertools.permutations(range(3)))[I.E.choose(6, "par_order")])
    return [list(range(k)), list(range(k - 1, -1, -1)), list(range(1, k)) + [0]][I.E.choose(3, "par_order")]


def par_materialise(I, it, consumer=""):
    """A rayon pipeline: the closure-bearing adaptors (map / filter / filter_map / flat_map) form one task per item of the indexed
    source below them.  The tasks are executed one after another in an order chosen by the solver (every permutation for <= 3
    tasks; identity, reverse and one rotation beyond), their results are assembled in index order (rayon's contract for indexed
    collect / partition / unzip / for_each ordering of results).  Anything order-dependent inside the tasks (a shared Mutex<Vec>,
    a counter) therefore shows up as paths with different results."""
    chain = []
    cur = it
    while isinstance(cur, Iter) and cur.kind in _CLOSURE_ADAPTORS + ("copied",) and "inner" in cur.d:
        chain.append(cur); cur = cur.d["inner"]
    # keep only up to the innermost closure adaptor as task body; below it everything is an index-stable source
    while chain and chain[-1].kind == "copied":
        cur = chain.pop()
    if not chain:
        if consumer in ("for_each", "try_for_each", "for_each_with", "any", "all"):
            # the consumer's own closure is the task: it is applied to the items in a solver-chosen order
            items = drain(I, cur)
            return Iter("list", xs=[items[i] for i in _perm(I, len(items))], i=0)
        return it
    unordered = False
    probe = cur
    while isinstance(probe, Iter):
        if probe.d.get("unordered"): unordered = True
        probe = probe.d.get("inner") or (probe.d.get("a") if probe.kind in ("zip", "chain") else None)
    items = drain(I, cur)
    k = len(items)
    perm = _perm(I, k)
    outs = {}
    for idx in perm:
        vals = [items[idx]]
        for ad in reversed(chain):
            nxt = []
            for x in vals:
                if ad.kind == "map": nxt.append(I.call_value(ad.d["f"], [x]))
                elif ad.kind == "copied": nxt.append(clone_val(deref(x)))
                elif ad.kind == "filter":
                    if I.E.branch(I.call_value(ad.d["f"], [Ref(Cell(x))]), "filter"): nxt.append(x)
                elif ad.kind == "filter_map":
                    r = I.call_value(ad.d["f"], [x])
                    if r.variant == "Some": nxt.append(r.cells[0].v)
                elif ad.kind == "flat_map":
                    sub = to_iter(I, I.call_value(ad.d["f"], [x])) if ad.d.get("f") is not None else to_iter(I, x)
                    nxt.extend(drain(I, sub))
            vals = nxt
        outs[idx] = vals
    order = perm if unordered else range(k)          # par_bridge: results arrive in completion order
    return Iter("list", xs=[v for idx in order for v in outs[idx]], i=0)


def into_iter(I, a, fr, d):
    return to_iter(I, a[0])


def next_(I, it):
    k = it.kind
    dd = it.d
    st = S()
    if k == "slice":
        if dd["i"] >= dd["hi"]: return END
        c = dd["s"].seq.cells[dd["i"]]; dd["i"] += 1
        return Ref(c)
    if k == "owned":
        if dd["i"] >= len(dd["cells"]): return END
        c = dd["cells"][dd["i"]]; dd["i"] += 1
        return c.v
    if k == "list":
        if dd["i"] >= len(dd["xs"]): return END
        x = dd["xs"][dd["i"]]; dd["i"] += 1
        return x
    if k == "range":
        lo = dd["lo"].v
        if dd["hi"] is None:                       # RangeFrom: unbounded (overflow of the counter panics like std in debug)
            r, o = int_overflow_op("Add", lo, Int(lo.ty, 1))
            if I.E.branch(o, "rangefrom_ovf"): raise Panic("attempt to add with overflow (RangeFrom iterator)")
            dd["lo"].v = r
            return lo
        if not I.E.branch(int_binop("Lt", lo, dd["hi"]), "range"): return END
        dd["lo"].v = int_binop("Add", lo, Int(lo.ty, 1))
        return lo
    if k == "map":
        x = next_(I, dd["inner"])
        return END if x is END else I.call_value(dd["f"], [x])
    if k == "filter":
        while True:
            x = next_(I, dd["inner"])
            if x is END: return END
            if I.E.branch(I.call_value(dd["f"], [Ref(Cell(x))]), "filter"): return x
    if k == "filter_map":
        while True:
            x = next_(I, dd["inner"])
            if x is END: return END
            r = I.call_value(dd["f"], [x])
            if r.variant == "Some": return r.cells[0].v
    if k == "enumerate":
        x = next_(I, dd["inner"])
        if x is END: return END
        n = dd["n"]; dd["n"] += 1
        return Agg(None, [Cell(Int("usize", n)), Cell(x)])
    if k == "copied":
        x = next_(I, dd["inner"])
        return END if x is END else clone_val(deref(x))
    if k == "rev":
        return next_back(I, dd["inner"])
    if k == "chain":
        if not dd["first_done"]:
            x = next_(I, dd["a"])
            if x is not END: return x
            dd["first_done"] = True
        return next_(I, dd["b"])
    if k == "zip":
        x = next_(I, dd["a"])
        if x is END: return END
        y = next_(I, dd["b"])
        if y is END: return END
        return Agg(None, [Cell(x), Cell(y)])
    if k == "take":
        if dd["n"] <= 0: return END
        dd["n"] -= 1
        return next_(I, dd["inner"])
    if k == "skip":
        while dd["n"] > 0:
            dd["n"] -= 1
            if next_(I, dd["inner"]) is END: return END
        return next_(I, dd["inner"])
    if k == "flat_map":
        while True:
            if dd["cur"] is not None:
                x = next_(I, dd["cur"])
                if x is not END: return x
                dd["cur"] = None
            y = next_(I, dd["inner"])
            if y is END: return END
            r = I.call_value(dd["f"], [y]) if dd["f"] is not None else y
            dd["cur"] = to_iter(I, r)
    if k == "from_fn":
        r = I.call_value(dd["f"], [])
        return END if r.variant == "None" else r.cells[0].v
    if k == "map_while":
        x = next_(I, dd["inner"])
        if x is END: return END
        r = I.call_value(dd["f"], [x])
        return END if r.variant == "None" else r.cells[0].v
    if k == "take_while":
        if dd.get("done"): return END
        x = next_(I, dd["inner"])
        if x is END: return END
        if I.E.branch(I.call_value(dd["f"], [Ref(Cell(x))]), "take_while"): return x
        dd["done"] = True
        return END
    if k == "peekable":
        if dd["peek"] is not None:
            x = dd["peek"]; dd["peek"] = None
            return x
        return next_(I, dd["inner"])
    if k == "py":
        return dd["f"](I)
    if k == "repo":
        r = I.run_fn(dd["f"], [Ref(dd["obj"])])
        return END if r.variant == "None" else r.cells[0].v
    raise Unmodelled("iterator kind " + k)


def next_back(I, it):
    k, dd = it.kind, it.d
    if k == "slice":
        if dd["i"] >= dd["hi"]: return END
        dd["hi"] -= 1
        return Ref(dd["s"].seq.cells[dd["hi"]])
    if k == "owned":
        if dd["i"] >= len(dd["cells"]): return END
        return dd["cells"].pop().v
    if k == "list":
        if dd["i"] >= len(dd["xs"]): return END
        return dd["xs"].pop()
    if k == "range":
        lo = dd["lo"].v
        if not I.E.branch(int_binop("Lt", lo, dd["hi"]), "range"): return END
        dd["hi"] = int_binop("Sub", dd["hi"], Int(lo.ty, 1))
        return dd["hi"]
    if k == "map":
        x = next_back(I, dd["inner"])
        return END if x is END else I.call_value(dd["f"], [x])
    if k == "copied":
        x = next_back(I, dd["inner"])
        return END if x is END else clone_val(deref(x))
    if k == "rev": return next_(I, dd["inner"])
    if k == "enumerate":
        # exact-size inner: materialise
        xs = drain(I, dd["inner"])
        base = dd["n"]
        it.kind = "list"; it.d = dict(xs=[Agg(None, [Cell(Int("usize", base + i)), Cell(x)]) for i, x in enumerate(xs)], i=0)
        return next_back(I, it)
    raise Unmodelled("next_back on " + k)


def drain(I, it):
    out = []
    while True:
        x = next_(I, it)
        if x is END: return out
        out.append(x)


def collect_into(I, it, d, c, fr):
    """collect according to the destination type d (parsed) / callee text c"""
    import colls
    st = S()
    target = None
    m = re.search(r"::collect::<(.+)>$", c)
    if m: target = parse_ty(m.group(1))
    elif d is not None: target = d
    if target is None: raise Unmodelled("collect without target type: " + c)
    return build(I, it, target, fr)


def build(I, it, target, fr):
    import colls
    st = S()
    l = target.last() if target.kind == "adt" else None
    if l == "Vec" or l == "VecDeque":
        return Seq([Cell(x) for x in drain(I, it)], "vec")
    if l == "String":
        return Seq([Cell(x) for x in drain(I, it)], "string")
    if l in ("HashSet", "BTreeSet"):
        s = SetV("hash" if l == "HashSet" else "btree")
        for x in drain(I, it): colls.set_insert(I, s, x)
        return s
    if l in ("HashMap", "BTreeMap"):
        mp = MapV("hash" if l == "HashMap" else "btree")
        for x in drain(I, it): colls.map_insert(I, mp, x.cells[0].v, x.cells[1].v)
        return mp
    if l == "Result":
        # Result<C, E>: stop at the first Err
        inner_t = target.args[0] if target.args else None
        items = []
        while True:
            x = next_(I, it)
            if x is END: break
            if x.variant == "Err": return x
            items.append(x.cells[0].v)
        if inner_t is None: raise Unmodelled("collect::<Result<_, _>> without inner type")
        return st.ok(I, build(I, Iter("list", xs=items, i=0), inner_t, fr))
    if l == "Option":
        inner_t = target.args[0]
        items = []
        while True:
            x = next_(I, it)
            if x is END: break
            if x.variant == "None": return x
            items.append(x.cells[0].v)
        return st.some(I, build(I, Iter("list", xs=items, i=0), inner_t, fr))
    if l in ("Arc", "Box", "Rc") and target.args and target.args[0].kind == "slice":
        return Ptr(Cell(Seq([Cell(x) for x in drain(I, it)], "vec")), l.lower())
    if target.kind == "tuple" and not target.args:
        drain(I, it); return unit()
    # repo type implementing FromIterator
    if target.kind == "adt":
        f = I.P._find_trait_method(target.name, "FromIterator", "from_iter", fr.fn.crate)
        if f is not None: return I.run_fn(f, [it])
    raise Unmodelled("collect into " + repr(target))


def method(name, c):
    st_ = S

    def f(I, a, fr, d):
        st = st_()
        if name == "collect_from":       # <C as FromIterator>::from_iter(iter)
            m = re.match(r"<(.+) as FromIterator", c)
            return build(I, to_iter(I, a[0]), parse_ty(m.group(1)), fr)
        if name == "sum_from":
            it = to_iter(I, a[0]); name2 = "sum"
        it = a[0]
        byref = False
        if isinstance(it, Ref):
            it = deref(it); byref = True
        if not isinstance(it, Iter):
            it = to_iter(I, it)
        if name == "next":
            x = next_(I, it)
            return st.none(I) if x is END else st.some(I, x)
        if name == "next_back":
            x = next_back(I, it)
            return st.none(I) if x is END else st.some(I, x)
        if name in ("map", "filter", "filter_map", "map_while", "take_while"): return Iter(name, inner=it, f=a[1])
        if name == "flat_map": return Iter("flat_map", inner=it, f=a[1], cur=None)
        if name == "flatten": return Iter("flat_map", inner=it, f=None, cur=None)
        if name == "enumerate": return Iter("enumerate", inner=it, n=0)
        if name in ("copied", "cloned"): return Iter("copied", inner=it)
        if name == "rev": return Iter("rev", inner=it)
        if name == "chain": return Iter("chain", a=it, b=to_iter(I, a[1]), first_done=False)
        if name == "zip": return Iter("zip", a=it, b=to_iter(I, a[1]))
        if name in ("take", "skip"):
            n = a[1].v if a[1].concrete else I.E.concretize(a[1], label=name)
            return Iter(name, inner=it, n=n)
        if name in ("into_par_iter", "par_iter", "par_iter_mut", "par_bridge"):
            it.d["par"] = True
            if name == "par_bridge": it.d["unordered"] = True
            return it
        if name in ("by_ref", "into_iter", "fuse"): return a[0] if byref else it
        if getattr(I, "par_orders", False) and name not in PAR_LAZY and is_par(it):
            it = par_materialise(I, it, name)    # tasks executed in a solver-chosen order, results in index order
        if name in ("find_any", "position_any", "find_first", "position_first"):
            xs, hits = drain(I, it), []
            for idx, x in enumerate(xs):
                arg = Ref(Cell(x)) if name.startswith("find") else x
                if I.E.branch(I.call_value(a[1], [arg]), name): hits.append((idx, x))
            if not hits: return st.none(I)
            idx, x = hits[I.E.choose(len(hits), "find_any")] if name.endswith("_any") else hits[0]
            return st.some(I, x if name.startswith("find") else Int("usize", idx))
        if name == "peekable": return Iter("peekable", inner=it, peek=None)
        if name == "peek":
            if it.d["peek"] is None:
                x = next_(I, it.d["inner"])
                if x is END: return st.none(I)
                it.d["peek"] = x
            return st.some(I, Ref(Cell(it.d["peek"])))
        if name == "collect": return collect_into(I, it, d, c, fr)
        if name == "count": return Int("usize", len(drain(I, it)))
        if name == "last":
            xs = drain(I, it)
            return st.some(I, xs[-1]) if xs else st.none(I)
        if name == "nth":
            n = a[1].v if a[1].concrete else I.E.concretize(a[1])
            x = END
            for _ in range(n + 1):
                x = next_(I, it)
                if x is END: break
            return st.none(I) if x is END else st.some(I, x)
        if name == "size_hint":
            return Agg(None, [Cell(Int("usize", 0)), Cell(st.none(I))])
        if name == "len": return Int("usize", len(drain(I, clone_val(it))))
        if name == "for_each":
            for x in iter(lambda: next_(I, it), END): I.call_value(a[1], [x])
            return unit()
        if name in ("any", "all"):
            want = name == "any"
            while True:
                x = next_(I, it)
                if x is END: return not want
                r = I.call_value(a[1], [x])
                if I.E.branch(r, name) == want: return want
        if name in ("find", "position", "find_map"):
            idx = 0
            while True:
                x = next_(I, it)
                if x is END: return st.none(I)
                if name == "find_map":
                    r = I.call_value(a[1], [x])
                    if r.variant == "Some": return r
                else:
                    arg = Ref(Cell(x)) if name == "find" else x
                    if I.E.branch(I.call_value(a[1], [arg]), name):
                        return st.some(I, x if name == "find" else Int("usize", idx))
                idx += 1
        if name in ("sum", "sum_from", "product"):
            m = re.search(r"::(?:sum|product)::<(.+)>$", c)
            ty = m.group(1) if m else (d.name if d is not None and d.kind == "int" else None)
            if ty is None:
                mm = re.match(r"<(\w+) as (?:Sum|Product)", c)
                ty = mm.group(1) if mm else None
            acc = None
            for x in iter(lambda: next_(I, it), END):
                x = deref(x)
                if acc is None: acc = x
                else:
                    r, o = int_overflow_op("Add" if name != "product" else "Mul", acc, x)
                    if not I.E.branch(b_not(o), "sumovf"): raise Panic("attempt to add with overflow in iterator sum")
                    acc = r
            return acc if acc is not None else Int(ty or "usize", 0 if name != "product" else 1)
        if name in ("fold",):
            acc = a[1]
            for x in iter(lambda: next_(I, it), END): acc = I.call_value(a[2], [acc, x])
            return acc
        if name in ("try_fold", "try_for_each"):
            acc = a[1] if name == "try_fold" else unit()
            fcl = a[2] if name == "try_fold" else a[1]
            last = None
            for x in iter(lambda: next_(I, it), END):
                r = I.call_value(fcl, [acc, x] if name == "try_fold" else [x])
                if getattr(r, "variant", None) not in ("Some", "Ok", "Continue"): return r
                acc = r.cells[0].v; last = r
            if last is not None: return EnumV(last.d, last.variant, [Cell(acc)])
            dn = d.name.split("::")[-1] if d is not None and getattr(d, "name", None) else ""
            if dn == "Option": return st.some(I, acc)
            if dn == "Result": return st.ok(I, acc)
            raise Unmodelled("try_fold over an empty iterator with output type " + repr(d))
        if name in ("step_by", "skip_while", "scan", "inspect"):
            stt = dict(first=True, skipping=True, acc=Cell(a[1]) if name == "scan" else None, done=False)
            n_ = None
            if name == "step_by":
                n_ = a[1].v if a[1].concrete else I.E.concretize(a[1], label="step_by")
                if n_ == 0: raise Panic(f"assertion failed: step != 0 in {fr.fn.crate}::{fr.fn.name}")
            def gen(I_):
                st2 = st_()
                if stt["done"]: return st2.none(I_)
                if name == "step_by":
                    if not stt["first"]:
                        for _ in range(n_ - 1):
                            if next_(I_, it) is END: return st2.none(I_)
                    stt["first"] = False
                    x = next_(I_, it)
                elif name == "skip_while":
                    x = next_(I_, it)
                    while stt["skipping"] and x is not END and I_.E.branch(I_.call_value(a[1], [Ref(Cell(x))]), "skip_while"):
                        x = next_(I_, it)
                    stt["skipping"] = False
                elif name == "inspect":
                    x = next_(I_, it)
                    if x is not END: I_.call_value(a[1], [Ref(Cell(x))])
                else:
                    x = next_(I_, it)
                    if x is END: return st2.none(I_)
                    r = I_.call_value(a[2], [Ref(stt["acc"]), x])
                    if r.variant == "None": stt["done"] = True
                    return r
                return st2.none(I_) if x is END else st2.some(I_, x)
            return Iter("from_fn", f=PyFn(gen, name))
        if name == "rposition":
            xs = drain(I, it)
            for idx in range(len(xs) - 1, -1, -1):
                if I.E.branch(I.call_value(a[1], [xs[idx]]), name): return st.some(I, Int("usize", idx))
            return st.none(I)
        if name in ("max_by", "min_by"):
            best = None
            for x in iter(lambda: next_(I, it), END):
                if best is None: best = x
                else:
                    r = I.call_value(a[1], [Ref(Cell(x)), Ref(Cell(best))]).variant
                    if (name == "max_by" and r != "Less") or (name == "min_by" and r == "Less"): best = x
            return st.none(I) if best is None else st.some(I, best)
        if name == "reduce":
            acc = None
            for x in iter(lambda: next_(I, it), END):
                acc = x if acc is None else I.call_value(a[1], [acc, x])
            return st.none(I) if acc is None else st.some(I, acc)
        if name in ("ne", "lt", "le", "gt", "ge", "cmp", "partial_cmp"):
            xs = Seq([Cell(deref(x)) for x in drain(I, it)]); ys = Seq([Cell(deref(x)) for x in drain(I, to_iter(I, a[1]))])
            if name == "ne": return b_not(st.val_eq(I, xs, ys))
            o = st.val_cmp(I, xs, ys)
            if name == "cmp": return st.ordering(I, o)
            if name == "partial_cmp": return st.some(I, st.ordering(I, o))
            return {"lt": o == "Less", "le": o != "Greater", "gt": o == "Greater", "ge": o != "Less"}[name]
        if name == "is_sorted":
            xs = [deref(x) for x in drain(I, it)]
            for x, y in zip(xs, xs[1:]):
                if st.val_cmp(I, x, y) == "Greater": return False
            return True
        if name in ("max", "min", "max_by_key", "min_by_key"):
            best = bk = None
            for x in iter(lambda: next_(I, it), END):
                k = I.call_value(a[1], [Ref(Cell(x))]) if name.endswith("by_key") else x
                if best is None: best, bk = x, k
                else:
                    r = st.val_cmp(I, k, bk)
                    if (name.startswith("max") and r != "Less") or (name.startswith("min") and r == "Less"): best, bk = x, k
            return st.none(I) if best is None else st.some(I, best)
        if name == "partition":
            xs, ys = [], []
            for x in iter(lambda: next_(I, it), END):
                (xs if I.E.branch(I.call_value(a[1], [Ref(Cell(x))]), "partition") else ys).append(Cell(x))
            return Agg(None, [Cell(Seq(xs, "vec")), Cell(Seq(ys, "vec"))])
        if name == "unzip":
            xs, ys = [], []
            for x in iter(lambda: next_(I, it), END):
                xs.append(Cell(x.cells[0].v)); ys.append(Cell(x.cells[1].v))
            return Agg(None, [Cell(Seq(xs, "vec")), Cell(Seq(ys, "vec"))])
        if name == "eq":
            return st.val_eq(I, Seq([Cell(x) for x in drain(I, it)]), Seq([Cell(x) for x in drain(I, to_iter(I, a[1]))]))
        return NotImplemented
    return f
