"""Native replay of M counterexamples: build the replay binary against the scratch copy of the
current tree, feed it the concrete inputs of the model, and compare the real result with the
reference oracle evaluated concretely."""
import os, shutil, subprocess, sys

HERE = os.path.dirname(os.path.abspath(__file__))
VERIF = os.path.dirname(HERE)
CACHE = os.environ.get("VERIF_CACHE", "/var/tmp/ebv-cache")
ENV = dict(os.environ, CARGO_NET_OFFLINE="true", CARGO_TERM_COLOR="never")


def build(scratch, release=False):
    """build the replay binary against the scratch copy; the dependency cache is shared between runs, so the build and the
    copy of the resulting binary into the scratch directory happen under a file lock"""
    import fcntl
    rp = os.path.join(scratch, "replay")
    prof = "release" if release else "debug"
    mine = os.path.join(rp, f"ebv-replay-{prof}")
    if os.path.exists(mine):
        return mine
    os.makedirs(CACHE, exist_ok=True)
    with open(os.path.join(CACHE, "replay.lock"), "w") as lk:
        fcntl.flock(lk, fcntl.LOCK_EX)
        if not os.path.isdir(rp):
            shutil.copytree(os.path.join(VERIF, "replay"), rp, ignore=shutil.ignore_patterns("target", "Cargo.lock"))
            shutil.copy(os.path.join(scratch, "repo", "Cargo.lock"), os.path.join(rp, "Cargo.lock"))
        env = dict(ENV, CARGO_TARGET_DIR=os.path.join(CACHE, "replay-target"))
        cmd = ["cargo", "build", "--offline"] + (["--release"] if release else [])
        p = subprocess.run(cmd, cwd=rp, env=env, capture_output=True, text=True)
        if p.returncode != 0:
            raise RuntimeError("replay crate does not build: " + p.stderr[-1500:])
        shutil.copy(os.path.join(CACHE, "replay-target", prof, "ebv-replay"), mine)
    return mine


def run_native(scratch, fields, release=False, threads=None):
    exe = build(scratch, release)
    txt = "".join(f"{k}={v}\n" for k, v in fields.items())
    env = dict(os.environ, RAYON_NUM_THREADS=str(threads)) if threads else None
    try:
        p = subprocess.run([exe], input=txt, capture_output=True, text=True, timeout=int(fields.get("timeout_s", 120)), env=env)
    except subprocess.TimeoutExpired:
        return {"timeout": f"the native run did not finish within {fields.get('timeout_s', 120)} s"}
    out = {}
    for l in p.stdout.splitlines():
        if "=" in l:
            k, v = l.split("=", 1)
            out[k] = v
    if p.returncode != 0 and not out:
        out["crash"] = (p.stderr or "")[-400:]
    if out.get("panic", "").startswith("REPLAY-HARNESS") or any(k.startswith("unknown_") for k in out):
        # a defect of the replay driver itself, never evidence about the code under test
        out = {"harness_error": str(out)}
    return out


def sw(x, bits=64):
    x &= (1 << bits) - 1
    return x - (1 << bits) if x >> (bits - 1) else x


def replay(scratch, rp, ce, params, profiles=(False, True), variants=True):
    """returns (reproduced, note, payload).  The judge compares the real code with the reference on the concrete input
    actually run, so it is sound for any input: when the solver's own model does not reproduce (e.g. it picked pc = 0
    where a wrong backward jump is unobservable) neighbouring inputs offered by the replay module are tried too."""
    import importlib
    kind = rp["kind"]
    mod = importlib.import_module("replay_" + kind)
    first = None
    cands = [(None, ce)]
    if variants and hasattr(mod, "variants"):
        cands += list(mod.variants(rp, ce, params))
    for label, ce2 in cands:
        fields, judge = mod.prepare(rp, ce2, params)
        if fields is None:
            res = (False, judge, None)
        else:
            outs = {}
            for rel in profiles:
                outs["release" if rel else "dev"] = run_native(scratch, fields, release=rel)
            # schedule-dependent behaviour cannot be forced natively: repeated runs on thread pools of several sizes
            for r_ in range(int(rp.get("par_runs", 0))):
                th = (2, 3, 4, 8, 16)[r_ % 5]
                outs[f"release/{th} threads #{r_}"] = run_native(scratch, fields, release=True, threads=th)
            # a native run that does not finish is evidence only where the replay says so (lock stress: deadlock); elsewhere it is
            # a non-result (loaded machine), never a reproduction
            verdicts = {k: ((False, v["timeout"]) if ("timeout" in v and not rp.get("timeout_is_failure")) else judge(v)) for k, v in outs.items()}
            ok = any(v[0] for v in verdicts.values())
            note = "; ".join(f"{k}: {v[1]}" for k, v in verdicts.items())
            if label: note = f"[neighbouring input: {label}] " + note
            res = (ok, note, dict(input=fields, native=outs))
        if res[0]: return res
        if first is None: first = res
    return first
