"""mirsym: path-forking symbolic execution of rustc MIR with z3 (engine M, DESIGN.md 2.3).

Forking is done with os.fork(): at a branch with several feasible sides every extra side is
continued by a child process that inherits the complete interpreter + solver state (copy on
write), so nothing is re-executed and up to `jobs` paths run in parallel."""
import json, os, re, sys, time, multiprocessing, traceback
import z3

import mir, defs
from mir import split_top, strip_generics, parse_ty
from values import *   # noqa

CRATE_ALIASES = {"essential_types": "types", "essential_asm": "asm", "essential_vm": "vm",
                 "essential_hash": "hash", "essential_sign": "sign", "essential_check": "check",
                 "essential_lock": "lock", "essential_asm_spec": "asm_spec"}


# =============================================================================== program
class Program:
    """All loaded crates: MIR functions, enum definitions, root re-exports."""

    def __init__(self):
        self.fns = {}        # crate -> {name: Fn}
        self.enums = {}      # crate -> {path: EnumDef}
        self.reexp = {}      # crate -> [(base, item, alias)]
        self.by_last = {}    # crate -> {last segment: [Fn]}
        self.closures = {}   # closure tag -> Fn
        self.std_enums = {k: defs.std_enum(k) for k in defs.STD_ENUMS}
        self._enum_cache = {}
        self._resolve_cache = {}

    def load_crate(self, crate, mir_path, expanded_path):
        fns = mir.parse_file(mir_path, crate)
        self.fns[crate] = fns
        bl = {}
        for f in fns.values():
            last = strip_generics(f.name).split("::")[-1]
            bl.setdefault(last, []).append(f)
            if f.closure_tag:
                self.closures[f.closure_tag] = f
        self.by_last[crate] = bl
        if expanded_path and os.path.exists(expanded_path):
            self.enums[crate], self.reexp[crate] = defs.parse_expanded(expanded_path, crate)
        else:
            self.enums[crate], self.reexp[crate] = {}, []

    # ---- enum lookup
    def enum_for_type(self, ty, crate):
        """EnumDef for a (parsed) ADT type printed in `crate`'s MIR, or None if not an enum."""
        if ty is None or ty.kind != "adt": return None
        key = (ty.name, crate)
        if key in self._enum_cache: return self._enum_cache[key]
        d = self._enum_lookup(ty.name, crate)
        self._enum_cache[key] = d
        return d

    def _enum_lookup(self, path, crate):
        segs = path.split("::")
        last = segs[-1]
        if segs[0] in ("std", "core", "alloc") or (len(segs) == 1 and last in self.std_enums and
                                                     not any(k.split("::")[-1] == last for k in self.enums.get(crate, {}))):
            return self.std_enums.get(last)
        if segs[0] in CRATE_ALIASES:
            crate, segs = CRATE_ALIASES[segs[0]], segs[1:]
        en = self.enums.get(crate, {})
        p = "::".join(segs)
        if p in en: return en[p]
        # through crate-root re-exports (pub use op::*; pub use opcode::Op as Opcode)
        if len(segs) == 1:
            for base, item, alias in self.reexp.get(crate, []):
                if alias == last and f"{base}::{item}" in en: return en[f"{base}::{item}"]
            for base, item, alias in self.reexp.get(crate, []):
                if item == "*" and f"{base}::{last}" in en: return en[f"{base}::{last}"]
        cands = [d for k, d in en.items() if k == p or k.endswith("::" + p)]
        if len(cands) == 1: return cands[0]
        if len(cands) > 1:
            # prefer the one reachable by a root glob re-export
            for base, item, alias in self.reexp.get(crate, []):
                if item == "*":
                    for d in cands:
                        if d.path == f"{base}::{p}": return d
            raise Unmodelled(f"ambiguous enum {path} in {crate}: {cands}")
        # other crates (types re-exported through vm::types etc.)
        for c2, en2 in self.enums.items():
            if c2 == crate: continue
            cs = [d for k, d in en2.items() if k.split("::")[-1] == last]
            if len(cs) == 1 and len(segs) >= 1:
                return cs[0]
        return self.std_enums.get(last) if last in self.std_enums else None

    # ---- function lookup
    def find_fn(self, callee, crate, args=None):
        key = (callee, crate)
        if key in self._resolve_cache: return self._resolve_cache[key]
        f = self._find_fn(callee, crate)
        self._resolve_cache[key] = f
        return f

    def _find_fn(self, callee, crate):
        c = re.sub(r"<'\w+>|'\w+, |'\w+ ", "", callee)
        m = re.fullmatch(r"<(.+) as (.+?)>::(\w+)(::<.*>)?", c)
        if m and _balanced(m.group(1)) and _balanced(m.group(2)):
            return self._find_trait_method(m.group(1), m.group(2), m.group(3), crate)
        plain = strip_generics(c)
        segs = plain.split("::")
        tcrate = crate
        if segs[0] in CRATE_ALIASES:
            tcrate, segs = CRATE_ALIASES[segs[0]], segs[1:]
        elif segs[0] in ("std", "core", "alloc"):
            return None
        fns = self.fns.get(tcrate)
        if fns is None: return None
        name = "::".join(segs)
        if name in fns: return fns[name]
        last = segs[-1]
        cands = [f for f in self.by_last[tcrate].get(last, []) if "{closure" not in f.name and not f.is_const]
        if not cands:
            # types re-exported through another crate (essential_vm::types::...)
            for c2 in self.fns:
                if c2 != tcrate:
                    cs = [f for f in self.by_last[c2].get(last, []) if strip_generics(f.name).endswith(name)]
                    if len(cs) == 1: return cs[0]
            return None
        # free function printed with a longer/shorter path
        exact = [f for f in cands if strip_generics(f.name) == name or strip_generics(f.name).endswith("::" + name)
                 or name.endswith("::" + strip_generics(f.name))]
        if len(exact) == 1: return exact[0]
        # inherent / trait method: Type::method  -> <impl at ..>::method with matching self type
        if len(segs) >= 2:
            tyname = segs[-2]
            ms = [f for f in cands if "<impl at" in f.name and _mentions(f, tyname)]
            ms2 = [f for f in ms if f.params and _self_is(f.params[0][1], tyname)] or \
                  [f for f in ms if _last_ty(f.ret) == tyname or "Self" in f.ret] or ms
            if len(ms2) == 1: return ms2[0]
            if len(ms2) > 1:
                # same module as the type path, if given
                if len(segs) >= 3:
                    mod = "::".join(segs[:-2])
                    ms3 = [f for f in ms2 if f.name.startswith(mod + "::")]
                    if len(ms3) == 1: return ms3[0]
                inh = [f for f in ms2 if f.params and _self_is(f.params[0][1], tyname)]
                if len(inh) == 1: return inh[0]
                raise Unmodelled(f"ambiguous method {callee} in {tcrate}: {[f.name for f in ms2]}")
        return None

    def _find_trait_method(self, selfty, trait, method, crate):
        """<SelfTy as Trait<Args>>::method  ->  the impl fn in a repo crate (or None for std)."""
        selfty = selfty.strip()
        st = parse_ty(selfty)
        tname = strip_generics(trait).split("::")[-1]
        targ = None
        mm = re.match(r"[\w:]+<(.*)>$", trait.strip())
        if mm: targ = [a for a in split_top(mm.group(1)) if a]
        base = st
        while base.kind in ("ref",): base = base.args[0]
        if base.kind != "adt":
            # <u8 as From<RepoType>>::from : identified by parameter and return type
            if tname in ("From", "TryFrom") and targ and base.kind in ("int", "bool", "array"):
                want_p, want_r = _last_ty(targ[0]), repr(base)
                out = []
                for c2 in self.fns:
                    for f in self.by_last.get(c2, {}).get(method, []):
                        if "<impl at" in f.name and len(f.params) == 1 and _last_ty(f.params[0][1]) == want_p \
                                and re.search(r"(^|[<( ])" + re.escape(want_r) + r"($|[>,) ])", f.ret):
                            out.append(f)
                if len(out) > 1:
                    mod = "::".join(strip_generics(targ[0]).split("::")[:-1])
                    o2 = [f for f in out if mod and (f.params[0][1].lstrip("&").startswith(mod + "::") or f.name.startswith(mod + "::"))]
                    if len(o2) == 1: return o2[0]
                    raise Unmodelled(f"ambiguous <{selfty} as {trait}>::{method}: {[f.name for f in out]}")
                return out[0] if out else None
            return None
        segs = base.name.split("::")
        tcrate = crate
        if segs[0] in CRATE_ALIASES: tcrate, segs = CRATE_ALIASES[segs[0]], segs[1:]
        if segs[0] in ("std", "core", "alloc"): return None
        tyname = segs[-1]
        out = []
        for c2 in ([tcrate] + [c for c in self.fns if c != tcrate]):
            for f in self.by_last.get(c2, {}).get(method, []):
                if "<impl at" not in f.name or "{closure" in f.name: continue
                if tname == "From" and targ:
                    if len(f.params) == 1 and _last_ty(f.params[0][1]) == _last_ty(targ[0]) and _last_ty(f.ret) in (tyname, "Self"):
                        out.append(f)
                elif tname == "TryFrom" and targ:
                    if len(f.params) == 1 and _last_ty(f.params[0][1]) == _last_ty(targ[0]) and tyname in f.ret + " Self":
                        if re.search(r"\b" + tyname + r"\b", f.ret): out.append(f)
                elif tname in ("Default",):
                    if not f.params and _last_ty(f.ret) == tyname: out.append(f)
                else:
                    if f.params and _self_is(f.params[0][1], tyname): out.append(f)
                    elif not f.params and _last_ty(f.ret) == tyname: out.append(f)
            if not out:
                # associated function without self (e.g. TryFromBytes::try_from_bytes): by return type
                full = "::".join(segs)
                for f in self.by_last.get(c2, {}).get(method, []):
                    if "<impl at" not in f.name or "{closure" in f.name: continue
                    if f.params and _self_is(f.params[0][1], tyname): continue
                    if re.search(r"(^|[<( ])" + re.escape(full) + r"($|[>,) ])", f.ret):
                        out.append(f)
            if out: break
        if len(out) == 1: return out[0]
        if len(out) > 1:
            # disambiguate by module path of the self type, then by reference-ness of self
            mod = "::".join(segs[:-1])
            o2 = [f for f in out if mod and f.name.startswith(mod + "::")]
            if len(o2) == 1: return o2[0]
            isref = st.kind == "ref"
            o3 = [f for f in (o2 or out) if f.params and (f.params[0][1].startswith("&") == isref)]
            if len(o3) == 1: return o3[0]
            # trait name appears in the impl of derive-generated code only via location; last resort:
            raise Unmodelled(f"ambiguous trait method <{selfty} as {trait}>::{method}: {[f.name for f in out]}")
        return None


def _balanced(s):
    d = 0
    for i, ch in enumerate(s):
        if ch == "<": d += 1
        elif ch == ">" and s[i - 1] not in "-=":
            d -= 1
            if d < 0: return False
    return d == 0


def _last_ty(t):
    t = t.strip()
    while t.startswith("&"):
        t = t[1:].lstrip()
        if t.startswith("mut "): t = t[4:]
        t = re.sub(r"^'\w+\s+", "", t)
    return strip_generics(t).split("::")[-1]


def _self_is(pty, tyname):
    return _last_ty(pty) == tyname


def _mentions(f, tyname):
    rx = re.compile(r"\b" + re.escape(tyname) + r"\b")
    return any(rx.search(t) for _, t in f.params) or bool(rx.search(f.ret))


# =============================================================================== explorer
class Explorer:
    """Solver + process-forking path exploration."""

    def __init__(self, out_dir, jobs=12, max_paths=200000, seed=0):
        self.solver = z3.Solver()
        self.solver.set("random_seed", seed)
        self.out_dir = out_dir
        self.root_pid = os.getpid()
        self.sem = multiprocessing.Semaphore(max(jobs - 1, 0))
        self.npaths = multiprocessing.Value("l", 0)
        self.nforks = multiprocessing.Value("l", 0)
        self.max_paths = max_paths
        self.has_token = False
        self.children = []
        self.queries = 0
        self.solver_time = 0.0
        self.trace = []            # human-readable decisions of this path
        self.names = {}            # name -> z3 const (for models)
        self._out = None
        self.steps = 0
        self.max_steps = 2_000_000

    # ---- symbolic inputs
    def sym_int(self, name, ty):
        v = z3.BitVec(name, INT_BITS[ty])
        self.names[name] = v
        return Int(ty, v)

    def sym_bool(self, name):
        v = z3.Bool(name)
        self.names[name] = v
        return v

    def assume(self, cond):
        cond = b_norm(cond)
        if cond is True: return
        if cond is False: raise Infeasible()
        self.solver.add(cond)
        if self._check() != z3.sat: raise Infeasible()

    def _check(self, *extra):
        self.queries += 1
        t = time.time()
        r = self.solver.check(*extra)
        self.solver_time += time.time() - t
        if r == z3.unknown: raise Unmodelled("solver returned unknown: " + self.solver.reason_unknown())
        return r

    # ---- forking
    def fork(self, alts, label=""):
        """alts: list of Bool (py bool or z3), mutually exclusive and exhaustive.  Returns the index
        this process continues with; other feasible alternatives continue in child processes."""
        alts = [b_norm(a) for a in alts]
        for i, a in enumerate(alts):
            if a is True: return i
        live = [i for i, a in enumerate(alts) if a is not False]
        feas = [i for i in live if self._check(alts[i]) == z3.sat]
        if not feas: raise Infeasible()
        chosen = feas[0]
        for i in feas[1:]:
            if self._spawn():
                chosen = i
                break
        self.solver.add(alts[chosen])
        if label: self.trace.append(f"{label}#{chosen}")
        return chosen

    def _spawn(self):
        """fork a child; returns True in the child."""
        with self.nforks.get_lock():
            self.nforks.value += 1
        sys.stdout.flush(); sys.stderr.flush()
        if self._out: self._out.flush()
        got = self.sem.acquire(False)
        pid = os.fork()
        if pid == 0:
            self.has_token = got
            self.children = []
            self._out = None
            self.queries = 0; self.solver_time = 0.0
            return True
        if got:
            self.children.append(pid)
        else:
            os.waitpid(pid, 0)
        return False

    def branch(self, cond, label=""):
        if isinstance(cond, bool): return cond
        cond = b_norm(cond)
        if isinstance(cond, bool): return cond
        return self.fork([cond, z3.Not(cond)], label) == 0

    def choose(self, n, label="choose"):
        """unconstrained n-way structural choice (no solver involved)"""
        if n <= 1: return 0
        chosen = 0
        for i in range(1, n):
            if self._spawn():
                chosen = i
                break
        self.trace.append(f"{label}={chosen}")
        return chosen

    def concretize(self, x, cap=64, label="conc"):
        """fork over all feasible concrete values of an Int; returns python int (unsigned repr)."""
        if x.concrete: return x.v
        vals = []
        self.solver.push()
        try:
            while True:
                if self._check() != z3.sat: break
                v = self.solver.model().eval(x.v, model_completion=True).as_long()
                vals.append(v)
                self.solver.add(x.v != v)
                if len(vals) > cap:
                    raise Unmodelled(f"concretize: more than {cap} feasible values for {x.v}")
        finally:
            self.solver.pop()
        if not vals: raise Infeasible()
        vals.sort()
        i = 0
        for k in range(1, len(vals)):
            if self._spawn():
                i = k
                break
        self.solver.add(x.v == vals[i])
        self.trace.append(f"{label}={vals[i]}")
        return vals[i]

    def is_sat(self, cond):
        cond = b_norm(cond)
        if isinstance(cond, bool): return cond
        return self._check(cond) == z3.sat

    def model_for(self, cond=None):
        """model (name -> int/bool) of the current path (and `cond`), or None"""
        r = self._check(*([b_z3(cond)] if cond is not None else []))
        if r != z3.sat: return None
        m = self.solver.model()
        out = {}
        for k, v in self.names.items():
            e = m.eval(v, model_completion=True)
            if z3.is_bool(e): out[k] = z3.is_true(e)
            else:
                try: out[k] = e.as_long()
                except Exception: out[k] = str(e)
        return out

    # ---- results
    def emit(self, rec):
        if self._out is None:
            self._out = open(os.path.join(self.out_dir, f"{os.getpid()}.jsonl"), "a")
        rec["trace"] = self.trace[-40:]
        self._out.write(json.dumps(rec, default=str) + "\n")
        self._out.flush()

    def finish_path(self, rec):
        with self.npaths.get_lock():
            self.npaths.value += 1
            n = self.npaths.value
        rec["queries"] = self.queries
        rec["solver_s"] = round(self.solver_time, 4)
        self.queries = 0; self.solver_time = 0.0
        self.emit(rec)
        if n > self.max_paths:
            self.emit(dict(status="budget", info=f"more than {self.max_paths} paths"))

    def end_process(self):
        for pid in self.children:
            try: os.waitpid(pid, 0)
            except ChildProcessError: pass
        self.children = []
        if self._out: self._out.close(); self._out = None
        if os.getpid() != self.root_pid:
            if self.has_token: self.sem.release()
            os._exit(0)

    def explore(self, harness):
        """Run `harness(self)` over all paths.  Returns list of result records (root only)."""
        try:
            try:
                out = harness(self)
                rec = dict(status="ok", info=out)
            except Panic as p:
                rec = dict(status="panic", info=str(p), model=self.model_for())
            except Infeasible:
                rec = None
            except Violation as v:
                rec = dict(status="violation", info=v.what, model=v.model, extra=v.extra)
            except Unmodelled as u:
                rec = dict(status="unmodelled", info=str(u))
            except RecursionError:
                rec = dict(status="unmodelled", info="python recursion limit")
            except Exception as e:   # interpreter bug = inconclusive, never silently dropped
                rec = dict(status="unmodelled", info="internal: " + repr(e) + " " + traceback.format_exc()[-1500:])
            if rec is not None:
                self.finish_path(rec)
            else:
                self.emit(dict(status="infeasible", queries=self.queries, solver_s=round(self.solver_time, 4)))
        finally:
            self.end_process()
        # root: collect
        recs = []
        for fn in os.listdir(self.out_dir):
            if fn.endswith(".jsonl"):
                for ln in open(os.path.join(self.out_dir, fn)):
                    recs.append(json.loads(ln))
        return recs


class Violation(Exception):
    def __init__(self, what, model=None, extra=None):
        self.what, self.model, self.extra = what, model, extra


def check(E, bad, what, extra=None):
    """Assert that `bad` is unsatisfiable on this path; otherwise raise a Violation with a model."""
    bad = b_norm(bad)
    if bad is False: return
    m = E.model_for(None if bad is True else bad)
    if m is not None:
        raise Violation(what, m, extra)
