"""mirsym: path-forking symbolic execution of rustc MIR with z3 (engine M, DESIGN.md 2.3).

Forking is done with os.fork(): at a branch with several feasible sides every extra side is
continued by a child process that inherits the complete interpreter + solver state (copy on
write), so nothing is re-executed and up to `jobs` paths run in parallel."""
import json, os, re, sys, time, multiprocessing, traceback
import z3

import mir, defs
from mir import split_top, strip_generics, parse_ty
from values import *   # noqa

CRATE_ALIASES = {"essential_types": "types", "essential_asm": "asm", "essential_vm": "vm",
                 "essential_hash": "hash", "essential_sign": "sign", "essential_check": "check",
                 "essential_lock": "lock", "essential_asm_spec": "asm_spec"}


STD_TYPES = {"Vec", "Option", "Result", "HashMap", "HashSet", "BTreeMap", "BTreeSet", "Arc", "Box", "Rc", "String", "str",
             "slice", "Range", "Mutex", "OnceLock", "VecDeque", "Entry", "Iter", "IterMut", "IntoIter", "PhantomData",
             "RangeInclusive", "Cow", "Cell", "RefCell", "MutexGuard"}

# =============================================================================== program
class Program:
    """All loaded crates: MIR functions, enum definitions, root re-exports."""

    def __init__(self):
        self.fns = {}        # crate -> {name: Fn}
        self.enums = {}      # crate -> {path: EnumDef}
        self.reexp = {}      # crate -> [(base, item, alias)]
        self.by_last = {}    # crate -> {last segment: [Fn]}
        self.closures = {}   # closure tag -> Fn
        self.local_traits = set()   # traits declared in the loaded crates (impls on std types resolve to repo code)
        self.std_enums = {k: defs.std_enum(k) for k in defs.STD_ENUMS}
        self._enum_cache = {}
        self._resolve_cache = {}

    def load_crate(self, crate, mir_path, expanded_path, stable_path=None):
        fns = mir.parse_file(mir_path, crate, stable_path)
        self.fns[crate] = fns
        bl = {}
        for f in fns.values():
            last = strip_generics(f.name).split("::")[-1]
            bl.setdefault(last, []).append(f)
            if f.closure_tag:
                self.closures[f.closure_tag] = f
        self.by_last[crate] = bl
        if expanded_path and os.path.exists(expanded_path):
            self.enums[crate], self.reexp[crate] = defs.parse_expanded(expanded_path, crate)
            self.local_traits.update(re.findall(r"^\s*(?:pub(?:\([^)]*\))?\s+)?(?:unsafe\s+)?trait\s+(\w+)", open(expanded_path).read(), re.M))
        else:
            self.enums[crate], self.reexp[crate] = {}, []

    # ---- enum lookup
    def enum_for_type(self, ty, crate):
        """EnumDef for a (parsed) ADT type printed in `crate`'s MIR, or None if not an enum."""
        if ty is None or ty.kind != "adt": return None
        key = (ty.name, crate)
        if key in self._enum_cache: return self._enum_cache[key]
        d = self._enum_lookup(ty.name, crate)
        self._enum_cache[key] = d
        return d

    def _enum_lookup(self, path, crate):
        segs = path.split("::")
        last = segs[-1]
        if segs[0] in ("std", "core", "alloc") or (len(segs) == 1 and last in self.std_enums and
                                                     not any(k.split("::")[-1] == last for k in self.enums.get(crate, {}))):
            return self.std_enums.get(last)
        if segs[0] in CRATE_ALIASES:
            crate, segs = CRATE_ALIASES[segs[0]], segs[1:]
        en = self.enums.get(crate, {})
        p = "::".join(segs)
        if p in en: return en[p]
        # through crate-root re-exports (pub use op::*; pub use opcode::Op as Opcode)
        if len(segs) == 1:
            for base, item, alias in self.reexp.get(crate, []):
                if alias == last and f"{base}::{item}" in en: return en[f"{base}::{item}"]
            for base, item, alias in self.reexp.get(crate, []):
                if item == "*" and f"{base}::{last}" in en: return en[f"{base}::{last}"]
        cands = [d for k, d in en.items() if k == p or k.endswith("::" + p)]
        if len(cands) == 1: return cands[0]
        if len(cands) > 1:
            # prefer the one reachable by a root glob re-export
            for base, item, alias in self.reexp.get(crate, []):
                if item == "*":
                    for d in cands:
                        if d.path == f"{base}::{p}": return d
            raise Unmodelled(f"ambiguous enum {path} in {crate}: {cands}")
        # other crates (types re-exported through vm::types etc.)
        for c2, en2 in self.enums.items():
            if c2 == crate: continue
            cs = [d for k, d in en2.items() if k.split("::")[-1] == last]
            if len(cs) == 1 and len(segs) >= 1:
                return cs[0]
        return self.std_enums.get(last) if last in self.std_enums else None

    # ---- function lookup
    def find_fn(self, callee, crate, args=None):
        key = (callee, crate)
        if key in self._resolve_cache: return self._resolve_cache[key]
        f = self._find_fn(callee, crate)
        self._resolve_cache[key] = f
        return f

    def _find_fn(self, callee, crate):
        c = re.sub(r"<'\w+>|'\w+, |'\w+ ", "", callee)
        q = mir.split_qualified(c)
        if q:
            return self._find_trait_method(q[0], q[1], q[2], crate)
        c = re.sub(r"<impl ([\w:]+)>::", r"\1::", c)      # `_::<impl Effects>::method` -> `_::Effects::method`
        plain = strip_generics(c)
        segs = plain.split("::")
        tcrate = crate
        if segs[0] in CRATE_ALIASES:
            tcrate, segs = CRATE_ALIASES[segs[0]], segs[1:]
        elif segs[0] in ("std", "core", "alloc") or (len(segs) >= 2 and segs[-2] in STD_TYPES) or segs[0] in STD_TYPES:
            return None
        name = "::".join(segs)
        order = [tcrate] + [c for c in self.fns if c != tcrate]
        for c2 in order:
            f = self._find_in_crate(c2, segs, name, callee, exact_only=False)
            if f is not None: return f
        return None

    def _find_in_crate(self, tcrate, segs, name, callee, exact_only):
        fns = self.fns.get(tcrate)
        if fns is None: return None
        if name in fns: return fns[name]
        last = segs[-1]
        cands = [f for f in self.by_last[tcrate].get(last, []) if "{closure" not in f.name and not f.is_const]
        if not cands: return None
        # free function printed with a longer/shorter path
        def _trimmed_match(fname):
            # def printed with a trimmed path: callee `a::b::f`, def `f` or `b::f`; the callee segment right
            # before the def's path must be a module (lower case), never a type (Vec::push vs fn push)
            if not name.endswith("::" + fname): return False
            pre = name[:-(len(fname) + 2)].split("::")[-1]
            return bool(pre) and (pre[0].islower() or pre[0] == "_")
        exact = [f for f in cands if "<impl at" not in f.name and (strip_generics(f.name) == name or strip_generics(f.name).endswith("::" + name)
                 or _trimmed_match(strip_generics(f.name)))]
        if len(exact) == 1: return exact[0]
        if len(segs) == 1 and len(cands) == 1: return cands[0]
        # inherent / trait method: Type::method  -> <impl at ..>::method with matching self type
        if len(segs) >= 2:
            tyname = segs[-2]
            ms = [f for f in cands if "<impl at" in f.name and _mentions(f, tyname)]
            ms2 = [f for f in ms if f.params and _self_is(f.params[0][1], tyname)] or \
                  [f for f in ms if _last_ty(f.ret) == tyname or "Self" in f.ret] or ms
            if len(ms2) == 1: return ms2[0]
            if len(ms2) > 1:
                if len(segs) >= 3:
                    mod = "::".join(segs[:-2])
                    ms3 = [f for f in ms2 if f.name.startswith(mod + "::")]
                    if len(ms3) == 1: return ms3[0]
                inh = [f for f in ms2 if f.params and _self_is(f.params[0][1], tyname)]
                if len(inh) == 1: return inh[0]
                raise Unmodelled(f"ambiguous method {callee} in {tcrate}: {[f.name for f in ms2]}")
        return None

    def _find_trait_method(self, selfty, trait, method, crate):
        """<SelfTy as Trait<Args>>::method  ->  the impl fn in a repo crate (or None for std)."""
        selfty = selfty.strip()
        st = parse_ty(selfty)
        tname = strip_generics(trait).split("::")[-1]
        targ = None
        mm = re.match(r"[\w:]+<(.*)>$", trait.strip())
        if mm: targ = [a for a in split_top(mm.group(1)) if a]
        base = st
        while base.kind in ("ref",): base = base.args[0]
        if base.kind != "adt":
            # <u8 as From<RepoType>>::from : identified by parameter and return type
            if tname in ("From", "TryFrom") and targ and base.kind in ("int", "bool", "array"):
                want_p, want_r = _last_ty(targ[0]), repr(base)
                out = []
                for c2 in self.fns:
                    for f in self.by_last.get(c2, {}).get(method, []):
                        if "<impl at" in f.name and len(f.params) == 1 and _last_ty(f.params[0][1]) == want_p \
                                and re.search(r"(^|[<( ])" + re.escape(want_r) + r"($|[>,) ])", f.ret):
                            out.append(f)
                if len(out) > 1:
                    mod = "::".join(strip_generics(targ[0]).split("::")[:-1])
                    o2 = [f for f in out if mod and (f.params[0][1].lstrip("&").startswith(mod + "::") or f.name.startswith(mod + "::"))]
                    if len(o2) == 1: return o2[0]
                    raise Unmodelled(f"ambiguous <{selfty} as {trait}>::{method}: {[f.name for f in out]}")
                return out[0] if out else None
            return None
        segs = base.name.split("::")
        tcrate = crate
        if segs[0] in CRATE_ALIASES: tcrate, segs = CRATE_ALIASES[segs[0]], segs[1:]
        if (segs[0] in ("std", "core", "alloc") or segs[-1] in STD_TYPES) and tname not in self.local_traits: return None
        tyname = segs[-1]
        out = []
        for c2 in ([tcrate] + [c for c in self.fns if c != tcrate]):
            for f in self.by_last.get(c2, {}).get(method, []):
                if "<impl at" not in f.name or "{closure" in f.name: continue
                if tname == "From" and targ:
                    if len(f.params) == 1 and _last_ty(f.params[0][1]) == _last_ty(targ[0]) and _last_ty(f.ret) in (tyname, "Self"):
                        out.append(f)
                elif tname == "TryFrom" and targ:
                    if len(f.params) == 1 and _last_ty(f.params[0][1]) == _last_ty(targ[0]) and tyname in f.ret + " Self":
                        if re.search(r"\b" + tyname + r"\b", f.ret): out.append(f)
                elif tname in ("Default",):
                    if not f.params and _last_ty(f.ret) == tyname: out.append(f)
                else:
                    if f.params and _self_is(f.params[0][1], tyname): out.append(f)
                    elif not f.params and _last_ty(f.ret) == tyname: out.append(f)
            if not out:
                # associated function without self (e.g. TryFromBytes::try_from_bytes): by return type
                full = "::".join(segs)
                for f in self.by_last.get(c2, {}).get(method, []):
                    if "<impl at" not in f.name or "{closure" in f.name: continue
                    if f.params and _self_is(f.params[0][1], tyname): continue
                    if re.search(r"(^|[<( ]|::)" + re.escape(tyname) + r"($|[<>,) ])", f.ret) and \
                            (len(segs) == 1 or re.search(re.escape(full), f.ret) or not re.search(r"\w::" + re.escape(tyname), f.ret)):
                        out.append(f)
            if out: break
        if len(out) == 1: return out[0]
        if len(out) > 1:
            # disambiguate by module path of the self type, then by reference-ness of self
            mod = "::".join(segs[:-1])
            o2 = [f for f in out if mod and f.name.startswith(mod + "::")]
            if len(o2) == 1: return o2[0]
            isref = st.kind == "ref"
            o3 = [f for f in (o2 or out) if f.params and (f.params[0][1].startswith("&") == isref)]
            if len(o3) == 1: return o3[0]
            # trait name appears in the impl of derive-generated code only via location; last resort:
            raise Unmodelled(f"ambiguous trait method <{selfty} as {trait}>::{method}: {[f.name for f in out]}")
        return None


def _balanced(s):
    d = 0
    for i, ch in enumerate(s):
        if ch == "<": d += 1
        elif ch == ">" and s[i - 1] not in "-=":
            d -= 1
            if d < 0: return False
    return d == 0


def _last_ty(t):
    t = t.strip()
    while t.startswith("&"):
        t = t[1:].lstrip()
        if t.startswith("mut "): t = t[4:]
        t = re.sub(r"^'\w+\s+", "", t)
    return strip_generics(t).split("::")[-1]


def _self_is(pty, tyname):
    return _last_ty(pty) == tyname


def _mentions(f, tyname):
    rx = re.compile(r"\b" + re.escape(tyname) + r"\b")
    return any(rx.search(t) for _, t in f.params) or bool(rx.search(f.ret))


# =============================================================================== explorer
class Explorer:
    """Solver + path exploration.

    A path is identified by its list of decisions (indices taken at fork points).  Each worker process
    explores paths depth-first by RE-EXECUTING the harness from the start with a decision prefix (no
    state copying, all solver work stays inside one long-lived z3 context per worker); `jobs` workers
    share a queue of pending prefixes."""

    def __init__(self, out_dir, jobs=12, max_paths=200000, seed=0):
        self.out_dir = out_dir
        self.jobs = max(1, jobs)
        self.seed = seed
        self.max_paths = max_paths
        self.npaths = multiprocessing.Value("l", 0)
        self.nforks = multiprocessing.Value("l", 0)
        self.max_steps = 2_000_000
        self.ok_models = {}
        self.query_timeout_ms = int(os.environ.get("MIRSYM_QUERY_TIMEOUT_MS", "10000"))
        self._out = None
        self._reset_path([])
        self.solver = None

    def _reset_path(self, prefix):
        self.prefix = list(prefix)
        self.pos = 0
        self.local_new = []
        self.queries = 0
        self.solver_time = 0.0
        self.decided = {}
        self.trace = []
        self.choices = []
        self.names = {}
        self.steps = 0

    # ---- symbolic inputs
    def sym_int(self, name, ty):
        v = z3.BitVec(name, INT_BITS[ty])
        self.names[name] = v
        return Int(ty, v)

    def sym_bool(self, name):
        v = z3.Bool(name)
        self.names[name] = v
        return v

    def assume(self, cond):
        cond = b_norm(cond)
        if cond is True: return
        if cond is False: raise Infeasible()
        self.solver.add(cond)
        if self._check() != z3.sat: raise Infeasible()

    def _check(self, *extra):
        self.queries += 1
        t = time.time()
        r = self.solver.check(*extra)
        self.solver_time += time.time() - t
        if r == z3.unknown: raise Unmodelled("solver returned unknown: " + self.solver.reason_unknown())
        return r

    # ---- decisions
    def _decide(self, n_alts, feasible_fn, label):
        """core of fork/choose/concretize: returns the index taken on this path"""
        if self.pos < len(self.prefix):
            i = self.prefix[self.pos]
            self.pos += 1
            return i, True
        feas = feasible_fn()
        if not feas: raise Infeasible()
        for j in feas[1:]:
            self.local_new.append(self.prefix + [j])
        with self.nforks.get_lock():
            self.nforks.value += len(feas) - 1
        i = feas[0]
        self.prefix.append(i)
        self.pos += 1
        return i, False

    def fork(self, alts, label=""):
        """alts: list of Bool (py bool or z3), mutually exclusive and exhaustive.  Returns the index this
        path continues with; the other feasible alternatives become pending paths."""
        alts = [b_norm(a) for a in alts]
        for i, a in enumerate(alts):
            if a is True: return i
        live = [i for i, a in enumerate(alts) if a is not False]
        if len(live) == 1 and False:
            return live[0]
        i, replayed = self._decide(len(alts), lambda: [k for k in live if self._check(alts[k]) == z3.sat], label)
        self.solver.add(alts[i])
        if label: self.trace.append(f"{label}#{i}")
        return i

    def branch(self, cond, label=""):
        if isinstance(cond, bool): return cond
        cond = b_norm(cond)
        if isinstance(cond, bool): return cond
        k = cond.get_id()
        hit = self.decided.get(k)
        if hit is not None and hit[1].eq(cond): return hit[0]
        r = self.fork([cond, z3.Not(cond)], label) == 0
        self.decided[k] = (r, cond)
        return r

    def choose(self, n, label="choose"):
        """unconstrained n-way structural choice (no solver involved)"""
        if n <= 1: return 0
        i, _ = self._decide(n, lambda: list(range(n)), label)
        self.trace.append(f"{label}={i}")
        self.choices.append(f"{label}={i}")
        return i

    def concretize(self, x, cap=64, label="conc"):
        """fork over all feasible concrete values of an Int; returns python int (unsigned repr)."""
        if x.concrete: return x.v

        def enum():
            vals = []
            self.solver.push()
            try:
                while True:
                    if self._check() != z3.sat: break
                    v = self.solver.model().eval(x.v, model_completion=True).as_long()
                    vals.append(v)
                    self.solver.add(x.v != v)
                    if len(vals) > cap:
                        raise Unmodelled(f"concretize: more than {cap} feasible values for {x.v}")
            finally:
                self.solver.pop()
            self._vals = sorted(vals)
            return list(range(len(vals)))
        if self.pos < len(self.prefix):
            # replay: the chosen value itself is recorded in the prefix
            v = self.prefix[self.pos][1]; self.pos += 1
        else:
            idx = enum()
            vals = self._vals
            if not vals: raise Infeasible()
            for w in vals[1:]:
                self.local_new.append(self.prefix + [("v", w)])
            with self.nforks.get_lock():
                self.nforks.value += len(vals) - 1
            v = vals[0]
            self.prefix.append(("v", v))
            self.pos += 1
        self.solver.add(x.v == v)
        self.trace.append(f"{label}={v}")
        return v

    def is_sat(self, cond):
        cond = b_norm(cond)
        if isinstance(cond, bool): return cond
        return self._check(cond) == z3.sat

    def model_for(self, cond=None):
        """model (name -> int/bool) of the current path (and `cond`), or None"""
        r = self._check(*([b_z3(cond)] if cond is not None else []))
        if r != z3.sat: return None
        m = self.solver.model()
        out = {}
        for k, v in self.names.items():
            e = m.eval(v, model_completion=True)
            if z3.is_bool(e): out[k] = z3.is_true(e)
            else:
                try: out[k] = e.as_long()
                except Exception: out[k] = str(e)
        return out

    # ---- results
    def emit(self, rec):
        if self._out is None:
            self._out = open(os.path.join(self.out_dir, f"{os.getpid()}.jsonl"), "a")
        rec["trace"] = self.choices[:60] + self.trace[-30:]
        self._out.write(json.dumps(rec, default=str) + "\n")

    def _run_path(self, path_fn, prefix):
        self._reset_path(prefix)
        self.solver.push()
        try:
            try:
                out = path_fn(self)
                rec = dict(status="ok", info=out)
                # a concrete witness of some passing paths (used for the native self-check of engine + oracle)
                key = str((out or {}).get("result")) if isinstance(out, dict) else str(out)
                n_ = self.ok_models.get(key, 0)
                self.ok_models[key] = n_ + 1
                if n_ < 2 or (n_ % 13 == 0 and n_ < 13 * 12):          # the first two and a thin spread of later paths
                    rec["model"] = self.model_for()
            except Panic as p:
                rec = dict(status="panic", info=str(p), model=self.model_for())
            except Infeasible:
                rec = dict(status="infeasible")
            except Violation as v:
                rec = dict(status="violation", info=v.what, model=v.model, extra=v.extra)
            except Unmodelled as u:
                rec = dict(status="unmodelled", info=str(u))
            except RecursionError:
                rec = dict(status="unmodelled", info="python recursion limit")
            except Exception as e:   # interpreter bug = inconclusive, never silently dropped
                rec = dict(status="unmodelled", info="internal: " + repr(e) + " " + traceback.format_exc()[-1500:])
        finally:
            self.solver.pop()
        if self.pos < len(self.prefix) and rec["status"] not in ("unmodelled",):
            rec = dict(status="unmodelled", info="replay divergence: path ended before its decision prefix was consumed")
        rec["queries"] = self.queries
        rec["solver_s"] = round(self.solver_time, 4)
        if rec["status"] != "infeasible":
            with self.npaths.get_lock():
                self.npaths.value += 1
                n = self.npaths.value
            if n == self.max_paths + 1:
                self.emit(dict(status="budget", info=f"more than {self.max_paths} paths"))
        self.emit(rec)
        return self.local_new

    def _dfs(self, path_fn, roots, limit=None):
        """depth-first exploration of the subtrees below `roots`; with `limit`, stops expanding once that many
        prefixes are pending and returns them (used to seed the workers)."""
        stack = list(roots)
        while stack:
            if limit is not None and len(stack) >= limit:
                return stack
            if self.npaths.value > self.max_paths:
                return []
            prefix = stack.pop(0) if limit is not None else stack.pop()
            stack.extend(self._run_path(path_fn, prefix))
        return []

    def explore(self, path_fn):
        """Run `path_fn(self)` over all paths.  Returns list of result records."""
        self.solver = z3.Solver()
        self.solver.set("random_seed", self.seed)
        self.solver.set("timeout", self.query_timeout_ms)
        # phase 1 (this process): breadth-first until there is enough work to share
        pending = self._dfs(path_fn, [[]], limit=(16 * self.jobs if self.jobs > 1 else None))
        if self._out: self._out.flush()
        if pending:
            # phase 2: workers claim subtrees dynamically through a shared counter
            nxt = multiprocessing.Value("l", 0)
            pids = []
            sys.stdout.flush(); sys.stderr.flush()
            for w in range(self.jobs):
                pid = os.fork()
                if pid == 0:
                    try:
                        self._out = None
                        self.solver = z3.Solver()
                        self.solver.set("random_seed", self.seed)
                        self.solver.set("timeout", self.query_timeout_ms)
                        while True:
                            with nxt.get_lock():
                                i = nxt.value
                                nxt.value += 1
                            if i >= len(pending): break
                            self._dfs(path_fn, [pending[i]])
                        if self._out: self._out.close()
                    finally:
                        os._exit(0)
                pids.append(pid)
            for pid in pids:
                os.waitpid(pid, 0)
        if self._out: self._out.close(); self._out = None
        recs = []
        for fn in os.listdir(self.out_dir):
            if fn.endswith(".jsonl"):
                for ln in open(os.path.join(self.out_dir, fn)):
                    recs.append(json.loads(ln))
        return recs


class Violation(Exception):
    def __init__(self, what, model=None, extra=None):
        self.what, self.model, self.extra = what, model, extra


def check(E, bad, what, extra=None):
    """Assert that `bad` is unsatisfiable on this path; otherwise raise a Violation with a model."""
    bad = b_norm(bad)
    if bad is False: return
    m = E.model_for(None if bad is True else bad)
    if m is not None:
        raise Violation(what, m, extra)
