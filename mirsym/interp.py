"""MIR interpreter over the value domain of values.py, driven by an Explorer."""
import re, sys
import z3

import mir
from mir import split_top, strip_generics, parse_ty
from values import *      # noqa
from engine import CRATE_ALIASES, Violation, check

sys.setrecursionlimit(20000)

CMP_OPS = {"Eq", "Ne", "Lt", "Le", "Gt", "Ge"}


class Frame:
    __slots__ = ("fn", "locals")

    def __init__(self, fn):
        self.fn, self.locals = fn, {}


class Interp:
    def __init__(self, program, explorer):
        self.P, self.E = program, explorer
        self.overrides = []          # [(compiled regex, handler(I, callee, args, crate) -> value)]
        self.tybind = {}             # generic parameter name -> concrete type text (harness binding)
        self.depth = 0
        self.call_log = None         # optional list collecting callee names (functions encoded)
        self.fns_run = set()
        self._model_cache = {}
        import stdmodels
        self.std = stdmodels

    # ------------------------------------------------------------------ types
    def local_ty(self, fr, name):
        t = fr.fn.locals.get(name)
        return parse_ty(t) if t else None

    def place_ty(self, fr, p):
        """static type of a place where cheaply known (locals and typed field projections)"""
        k = p[0]
        if k == "local": return self.local_ty(fr, p[1])
        if k == "field": return parse_ty(p[3])
        if k == "deref":
            t = self.place_ty(fr, p[1])
            if t is not None and t.kind in ("ref", "ptr"): return t.args[0]
            if t is not None and t.kind == "adt" and t.last() in ("Box", "Arc", "Rc") and t.args: return t.args[0]
            return None
        if k in ("index", "cindex"):
            t = self.place_ty(fr, p[1])
            if t is not None and t.kind in ("array", "slice"): return t.args[0]
            return None
        return None

    # ------------------------------------------------------------------ places
    def place(self, fr, p):
        """Cell designated by the place (SliceRef for an unsized slice place)."""
        k = p[0]
        if k == "local":
            c = fr.locals.get(p[1])
            if c is None:
                c = fr.locals[p[1]] = Cell()
                t = fr.fn.locals.get(p[1]) or ""
                if t.startswith("{closure@"):
                    # a capture-less closure is a zero-sized value that MIR never assigns
                    f = fr.fn.closures.get(t) or self.P.closures.get(t)
                    if f is not None: c.v = Closure(f, [])
            return c
        if k == "deref":
            v = self.place(fr, p[1])
            v = v.v if isinstance(v, Cell) else v
            if isinstance(v, Ref): return v.cell
            if isinstance(v, Ptr): return v.cell
            if isinstance(v, (SliceRef, StrV)): return v
            raise Unmodelled(f"deref of {type(v).__name__} in {fr.fn.name}")
        if k == "field":
            b = self.place(fr, p[1])
            bv = b.v if isinstance(b, Cell) else b
            if isinstance(bv, (Agg, EnumV, Closure)):
                cells = bv.cells
                while len(cells) <= p[2]: cells.append(Cell())
                return cells[p[2]]
            if bv is None and isinstance(b, Cell):
                # writing fields of a not-yet-initialised aggregate (field-wise init)
                t = self.place_ty(fr, p[1])
                b.v = Agg(t.name if t is not None and t.kind == "adt" else None, [])
                cells = b.v.cells
                while len(cells) <= p[2]: cells.append(Cell())
                return cells[p[2]]
            if isinstance(bv, (Ptr, Ref)) and p[2] == 0 and ("Unique<" in p[3] or "NonNull<" in p[3]):
                # Box internals (vec![..] lowering): Box.0 (Unique) .0 (NonNull) -> pointer to the boxed value
                return Cell(Ref(bv.cell))
            if isinstance(bv, Ptr) and p[2] == 0:
                return bv.cell
            raise Unmodelled(f"field .{p[2]} of {type(bv).__name__} in {fr.fn.name}")
        if k == "downcast":
            b = self.place(fr, p[1])
            bv = b.v
            if isinstance(bv, EnumV):
                want = p[2]
                if not want.isdigit() and bv.variant != want:
                    raise Unmodelled(f"downcast of {bv.variant} as {want} in {fr.fn.name}")
            return b
        if k == "index":
            b = self.place(fr, p[1])
            iv = fr.locals[p[2]].v
            i = self.E.concretize(iv, label="index")
            return self._elem(b, i, fr)
        if k == "cindex":
            b = self.place(fr, p[1])
            i = p[2]
            if p[4]:
                n = self._len_of(b)
                i = n + i
            return self._elem(b, i, fr)
        if k == "subslice":
            b = self.place(fr, p[1])
            bv = b.v if isinstance(b, Cell) else b
            if isinstance(bv, Seq): bv = SliceRef(bv, 0, len(bv.cells))
            lo, hi = p[2], p[3]
            n = len(bv)
            hi = n + hi if hi <= 0 else hi
            return SliceRef(bv.seq, bv.lo + lo, bv.lo + hi)
        raise Unmodelled("place kind " + k)

    def resolve_converted(self, fr, place, cell, v):
        """an error converted into a generic `E: From<X>`: apply the From impl now that the concrete type is known"""
        t = self.place_ty(fr, place)
        inner = v.payload
        while isinstance(inner, Opaque) and inner.tag == "ConvertedError": inner = inner.payload
        name = inner.d.name if isinstance(inner, EnumV) else (inner.name.split("::")[-1] if isinstance(inner, Agg) and inner.name else None)
        if t is None or t.kind != "adt" or name is None: raise Unmodelled("cannot resolve a generically converted error in " + fr.fn.name)
        if t.last() == name:
            cell.v = inner
            return inner
        f = self.P._find_trait_method(t.name, f"From<{name}>", "from", fr.fn.crate)
        if f is None: raise Unmodelled(f"error conversion {name} -> {t!r} not found in {fr.fn.name}")
        cell.v = self.run_fn(f, [inner])
        return cell.v

    def _len_of(self, b):
        bv = b.v if isinstance(b, Cell) else b
        if isinstance(bv, Seq): return len(bv.cells)
        if isinstance(bv, SliceRef): return len(bv)
        raise Unmodelled("len of " + type(bv).__name__)

    def _elem(self, b, i, fr):
        bv = b.v if isinstance(b, Cell) else b
        if isinstance(bv, Seq):
            if not (0 <= i < len(bv.cells)): raise Panic(f"index {i} out of bounds (len {len(bv.cells)}) in {fr.fn.name}")
            return bv.cells[i]
        if isinstance(bv, SliceRef):
            if not (0 <= i < len(bv)): raise Panic(f"index {i} out of bounds (len {len(bv)}) in {fr.fn.name}")
            return bv.seq.cells[bv.lo + i]
        raise Unmodelled(f"index into {type(bv).__name__} in {fr.fn.name}")

    # ------------------------------------------------------------------ operands
    def operand(self, fr, o, want_ty=None):
        k = o[0]
        if k == "copy":
            c = self.place(fr, o[1])
            v = c.v if isinstance(c, Cell) else c
            return clone_val(v)
        if k == "move":
            c = self.place(fr, o[1])
            return c.v if isinstance(c, Cell) else c
        if k == "const":
            return self.const(fr, o[1], want_ty)
        if k == "fnref":
            return FnRef(o[1], fr.fn.crate)
        raise Unmodelled("operand " + k)

    def const(self, fr, s, want_ty=None):
        m = re.fullmatch(r"(-?\d+)_([iu](?:8|16|32|64|128|size))", s)
        if m: return Int(m.group(2), int(m.group(1)))
        if s == "true": return True
        if s == "false": return False
        if s == "()": return unit()
        if s.startswith('"'):
            return StrV(_unescape(s[1:s.rindex('"')]))
        if s.startswith('b"'):
            bs = _unescape_bytes(s[2:s.rindex('"')])
            return Ref(Cell(Seq([Cell(Int("u8", b)) for b in bs], "array")))
        m = re.fullmatch(r"'(.)'", s)
        if m: return Int("char", ord(m.group(1)))
        m = re.fullmatch(r"(-?[\d.]+(?:e-?\d+)?)_?f(32|64)", s)
        if m: return Opaque("float", float(m.group(1)))
        if s.startswith("ZeroSized: "):
            tag = s[len("ZeroSized: "):]
            if tag.startswith("{closure@"):
                f = fr.fn.closures.get(tag) or self.P.closures.get(tag)
                if f is None: raise Unmodelled("closure " + tag)
                return Closure(f, [])
            if tag.startswith("fn(") or " {" in tag:
                mm = re.search(r"\{(.*)\}$", tag)
                return FnRef(mm.group(1), fr.fn.crate) if mm else Opaque("zst", tag)
            return Agg(tag, [])
        m = re.fullmatch(r"core::num::<impl ([iu]\w+)>::(MAX|MIN|BITS)", s) or re.fullmatch(r"([iu]\w+)::(MAX|MIN|BITS)", s)
        if m:
            t = m.group(1); b = INT_BITS[t]
            if m.group(2) == "BITS": return Int("u32", b)
            sg = t[0] == "i"
            v = ((1 << (b - 1)) - 1 if sg else (1 << b) - 1) if m.group(2) == "MAX" else (-(1 << (b - 1)) if sg else 0)
            return Int(t, v)
        m = re.search(r"promoted\[(\d+)\]$", s)
        if m:
            pf = fr.fn.promoted.get(int(m.group(1)))
            if pf is None:
                # promoted of the enclosing fn printed with a trait path: look up by suffix
                for f in self.P.fns[fr.fn.crate].values():
                    if f.name.endswith(f"::promoted[{m.group(1)}]") and strip_generics(f.name).split("::promoted")[0].split("::")[-1] == strip_generics(fr.fn.name).split("::")[-1]:
                        cands = f
                        pf = f
                        break
            if pf is None: raise Unmodelled("promoted " + s + " in " + fr.fn.name)
            return self.run_fn(pf, [])
        # enum tuple variant with constant fields:  Result::<A, B>::Err(NotEnoughBytesError)
        m = re.fullmatch(r"(.+?)::(\w+)\((.*)\)", s)
        if m and not s.startswith(("<", "&")):
            d = self.P.enum_for_type(want_ty, fr.fn.crate) if want_ty is not None else None
            if d is None or m.group(2) not in d.index:
                d = self.P.enum_for_type(parse_ty(strip_generics(m.group(1))), fr.fn.crate)
            if d is not None and m.group(2) in d.index:
                return EnumV(d, m.group(2), [Cell(self.const(fr, a.strip())) for a in split_top(m.group(3)) if a.strip()])
        # enum unit variant / unit struct as const:  std::option::Option::<T>::None
        m = re.fullmatch(r"(.+)::(\w+)", strip_generics(s))
        if m:
            ty = want_ty
            d = self.P.enum_for_type(ty, fr.fn.crate) if ty is not None else None
            if d is None:
                d = self.P.enum_for_type(parse_ty(m.group(1)), fr.fn.crate)
            if d is not None and m.group(2) in d.index:
                return EnumV(d, m.group(2), [])
        # named constant / associated constant with MIR body
        f = self._find_const(s, fr.fn.crate)
        if f is not None:
            return self.run_fn(f, [])
        hv = self.std.const_value(self, s, want_ty)
        if hv is not None: return hv
        if re.fullmatch(r"[A-Za-z_][\w]*(::[A-Za-z_][\w]*)*", s) and s.split("::")[-1][0].isupper() \
                and (want_ty is None or (want_ty.kind == "adt" and want_ty.last() == s.split("::")[-1])):
            return Agg(s, [])          # unit struct value
        raise Unmodelled(f"const {s} in {fr.fn.name}")

    def _find_const(self, s, crate):
        plain = strip_generics(re.sub(r"^<(.+?) as .+?>::", r"\1::", s)) if s.startswith("<") else strip_generics(s)
        segs = plain.split("::")
        if segs[0] in CRATE_ALIASES: crate, segs = CRATE_ALIASES[segs[0]], segs[1:]
        fns = self.P.fns.get(crate, {})
        name = "::".join(segs)
        if name in fns and fns[name].is_const: return fns[name]
        cands = [f for f in self.P.by_last.get(crate, {}).get(segs[-1], []) if f.is_const]
        if len(cands) == 1: return cands[0]
        if len(cands) > 1 and len(segs) >= 2:
            c2 = [f for f in cands if segs[-2].lower() in f.name.lower()]
            if len(c2) == 1: return c2[0]
        if not cands:
            for c in self.P.fns:
                cs = [f for f in self.P.by_last.get(c, {}).get(segs[-1], []) if f.is_const]
                if len(cs) == 1: return cs[0]
        return None

    # ------------------------------------------------------------------ rvalues
    def rvalue(self, fr, dest, rv):
        k = rv[0]
        if k == "use":
            return self.operand(fr, rv[1], self.place_ty(fr, dest) if rv[1][0] == "const" else None)
        if k == "ref":
            c = self.place(fr, rv[1])
            if isinstance(c, (SliceRef, StrV)): return c
            return Ref(c)
        if k == "binop":
            a = self.operand(fr, rv[2]); b = self.operand(fr, rv[3])
            return self.binop(rv[1], a, b, fr)
        if k == "unop":
            a = self.operand(fr, rv[2])
            if rv[1] == "Not":
                if isinstance(a, Int):
                    return Int(a.ty, ~a.v) if a.concrete else mk_int(a.ty, ~a.v)
                return b_not(a)
            if rv[1] == "Neg":
                return Int(a.ty, -a.v) if a.concrete else mk_int(a.ty, -a.v)
            if rv[1] == "PtrMetadata":
                if isinstance(a, SliceRef): return Int("usize", len(a))
                if isinstance(a, Ref) and isinstance(a.cell.v, Seq): return Int("usize", len(a.cell.v.cells))
                if isinstance(a, StrV): return Int("usize", len(a.s.encode()))
            raise Unmodelled("unop " + rv[1])
        if k == "discr":
            c = self.place(fr, rv[1])
            v = c.v
            if isinstance(v, Opaque) and v.tag == "ConvertedError":
                v = self.resolve_converted(fr, rv[1], c, v)
            if isinstance(v, EnumV): return Int("isize", v.d.discr[v.variant])
            raise Unmodelled(f"discriminant of {type(v).__name__} in {fr.fn.name}")
        if k == "len":
            return Int("usize", self._len_of(self.place(fr, rv[1])))
        if k == "cast":
            return self.cast(fr, self.operand(fr, rv[1]), rv[2], rv[3])
        if k == "tuple":
            return Agg(None, [Cell(self.operand(fr, o)) for o in rv[1]])
        if k == "array":
            return Seq([Cell(self.operand(fr, o)) for o in rv[1]], "array")
        if k == "repeat":
            v = self.operand(fr, rv[1])
            n = rv[2]
            m = re.fullmatch(r"(\d+)(?:_usize)?", n)
            if not m:
                cv = self.const(fr, n.replace("const ", ""))
                n = cv.v
            else:
                n = int(m.group(1))
            return Seq([Cell(clone_val(v)) for _ in range(n)], "array")
        if k == "agg":
            return self.aggregate(fr, dest, rv)
        if k == "sizeof":
            raise Unmodelled("SizeOf")
        raise Unmodelled("rvalue " + k)

    def binop(self, op, a, b, fr=None):
        if op in ("AddWithOverflow", "SubWithOverflow", "MulWithOverflow"):
            r, o = int_overflow_op(op[:3], a, b)
            return Agg(None, [Cell(r), Cell(o)])
        if op in ("AddUnchecked", "SubUnchecked", "MulUnchecked"):
            return int_binop(op[:3], a, b)
        if isinstance(a, Int) and isinstance(b, Int):
            if op == "Cmp":
                d = self.P.std_enums["Ordering"]
                lt = int_binop("Lt", a, b)
                if isinstance(lt, bool) and lt: return EnumV(d, "Less")
                eq = int_binop("Eq", a, b)
                if isinstance(lt, bool) and isinstance(eq, bool):
                    return EnumV(d, "Equal" if eq else "Greater")
                i = self.E.fork([lt, eq, b_and(b_not(lt), b_not(eq))], "cmp")
                return EnumV(d, ["Less", "Equal", "Greater"][i])
            return int_binop(op, a, b)
        if isinstance(a, bool) or isinstance(b, bool) or z3.is_bool(a) or z3.is_bool(b):
            if op == "Eq": return b_eq(a, b)
            if op == "Ne": return b_not(b_eq(a, b))
            if op == "BitAnd": return b_and(a, b)
            if op == "BitOr": return b_or(a, b)
            if op == "BitXor": return b_not(b_eq(a, b))
            if op in ("Lt", "Le", "Gt", "Ge"):
                ai, bi = self._b2i(a), self._b2i(b)
                return int_binop(op, ai, bi)
        if isinstance(a, EnumV) and isinstance(b, EnumV) and op in ("Eq", "Ne"):
            r = a.variant == b.variant and not a.cells
            return r if op == "Eq" else not r
        raise Unmodelled(f"binop {op} on {type(a).__name__},{type(b).__name__}")

    def _b2i(self, b):
        if isinstance(b, bool): return Int("u8", int(b))
        return mk_int("u8", z3.If(b, z3.BitVecVal(1, 8), z3.BitVecVal(0, 8)))

    def cast(self, fr, v, ty, kind):
        if kind.startswith("IntToInt"):
            if isinstance(v, Int): return int_cast(v, ty)
            if isinstance(v, bool) or z3.is_bool(v): return int_cast(self._b2i(v), ty)
            if isinstance(v, EnumV): return Int(ty, v.d.discr[v.variant])
        if kind.startswith("PointerCoercion") or kind.startswith("PtrToPtr") or kind.startswith("Transmute") \
                or kind.startswith("PointerExposeAddress") or kind.startswith("PointerWithExposedProvenance"):
            t = parse_ty(ty)
            if "Unsize" in kind and isinstance(v, Ref) and isinstance(v.cell.v, Seq) and t.kind == "ref" and t.args[0].kind == "slice":
                return SliceRef(v.cell.v, 0, len(v.cell.v.cells))
            return v
        if kind.startswith("FloatToInt") or kind.startswith("IntToFloat") or kind.startswith("FloatToFloat"):
            raise Unmodelled("float cast")
        raise Unmodelled(f"cast {kind} of {type(v).__name__} to {ty}")

    def aggregate(self, fr, dest, rv):
        head, ops, braces = rv[1], rv[2], rv[3]
        vals = [Cell(self.operand(fr, o)) for o in ops]
        if head.startswith("{closure@") or head.startswith("{closure#"):
            tag = re.match(r"\{closure@[^}]*\}", head)
            f = (fr.fn.closures.get(tag.group(0)) or self.P.closures.get(tag.group(0))) if tag else None
            if f is None: raise Unmodelled("closure " + head)
            return Closure(f, vals)
        dty = self.place_ty(fr, dest)
        plain = strip_generics(head)
        # enum variant?
        d = self.P.enum_for_type(dty, fr.fn.crate) if dty is not None else None
        last = plain.split("::")[-1]
        if d is not None and last in d.index and (len(plain.split("::")) >= 2 or not braces):
            return EnumV(d, last, vals)
        if "::" in plain:
            tpath = plain.rsplit("::", 1)[0]
            d2 = self.P.enum_for_type(parse_ty(tpath), fr.fn.crate)
            if d2 is not None and last in d2.index:
                return EnumV(d2, last, vals)
        # struct / tuple struct
        return Agg(plain, vals)

    # ------------------------------------------------------------------ execution
    def run_fn(self, fn, args):
        E = self.E
        self.fns_run.add(fn.crate + "::" + fn.name)
        fr = Frame(fn)
        for (name, _), a in zip(fn.params, args):
            fr.locals[name] = Cell(a)
        bb = "bb0"
        self.depth += 1
        if self.depth > 400: raise Unmodelled("call depth > 400 in " + fn.name)
        try:
            while True:
                stmts, term = fn.block(bb)
                for st in stmts:
                    E.steps += 1
                    k = st[0]
                    if k == "assign":
                        v = self.rvalue(fr, st[1], st[2])
                        c = self.place(fr, st[1])
                        if isinstance(c, Cell): c.v = v
                        else: raise Unmodelled("assign to unsized place in " + fn.name)
                    elif k == "setdiscr":
                        c = self.place(fr, st[1])
                        t = self.place_ty(fr, st[1])
                        d = self.P.enum_for_type(t, fn.crate)
                        if d is None: raise Unmodelled("SetDiscriminant on unknown enum in " + fn.name)
                        vn = d.variants[st[2]]
                        if isinstance(c.v, EnumV): c.v.variant = vn
                        else: c.v = EnumV(d, vn, c.v.cells if isinstance(c.v, Agg) else [])
                    elif k == "assume":
                        pass
                if E.steps > E.max_steps: raise Unmodelled("step budget exceeded in " + fn.name)
                t = term[0]
                if t == "goto": bb = term[1]
                elif t == "return":
                    c = fr.locals.get("_0")
                    return c.v if c is not None and c.v is not None else unit()
                elif t == "switch":
                    v = self.operand(fr, term[1])
                    bb = self.switch(v, term[2], fn)
                elif t == "call":
                    args2 = [self.operand(fr, o) for o in term[3]]
                    r = self.call(term[2], args2, fr, term[1])
                    if term[4] is None:
                        raise Unmodelled(f"diverging call {term[2]} returned in {fn.name}")
                    c = self.place(fr, term[1])
                    c.v = r
                    bb = term[4]
                elif t == "assert":
                    v = self.operand(fr, term[2])
                    ok = b_not(v) if term[1] else v
                    if not E.branch(ok, "assert"):
                        raise Panic(f"MIR assert failed: {term[3]} in {fn.crate}::{fn.name}")
                    bb = term[4]
                elif t == "drop":
                    self.drop(self.place(fr, term[1]))
                    bb = term[2]
                elif t == "unreachable":
                    raise Panic(f"unreachable code reached in {fn.crate}::{fn.name}")
                else:
                    raise Unmodelled("terminator " + t)
        except Unmodelled as u:
            if " [in " not in str(u): raise Unmodelled(f"{u} [in {fn.crate}::{fn.name} {bb}]")
            raise
        finally:
            self.depth -= 1

    def drop(self, c):
        v = c.v if isinstance(c, Cell) else c
        self._drop_val(v, set())
        hook = getattr(self, "drop_hook", None)
        if hook: hook(v)

    def _drop_val(self, v, seen):
        """release what the value owns: Arc/Rc strong counts (recursively through aggregates), mutex guards"""
        if id(v) in seen or v is None: return
        seen.add(id(v))
        if isinstance(v, Ptr):
            if v.kind in ("arc", "rc") and isinstance(v.rc.v, int):
                v.rc.v -= 1
                if v.rc.v == 0: self._drop_val(v.cell.v, seen)
            elif v.kind == "box":
                self._drop_val(v.cell.v, seen)
        elif isinstance(v, (Agg, EnumV, Closure)):
            for cc in v.cells: self._drop_val(cc.v, seen)
        elif isinstance(v, Seq):
            for cc in v.cells: self._drop_val(cc.v, seen)
        elif isinstance(v, MapV):
            for k, cc in v.items: self._drop_val(cc.v, seen)
        elif isinstance(v, Opaque) and v.tag == "MutexGuard":
            m = getattr(self, "guards", {}).get(id(v))
            if m is not None and m.cells[1].v is True:
                m.cells[1].v = False
                log = getattr(self, "event_log", None)
                if log is not None: log.append(("unlock", id(m)))

    def switch(self, v, arms, fn):
        if isinstance(v, bool): v = Int("u8", int(v))
        elif z3.is_bool(v):
            # two-way on a symbolic bool
            t = self.E.branch(v, "sw")
            iv = 1 if t else 0
            for k, tgt in arms:
                if k == iv: return tgt
            return arms[-1][1]
        if isinstance(v, Int):
            if v.concrete:
                val = v.v
                sval = v.sval()
                for k, tgt in arms:
                    if k is None or k == val or k == sval: return tgt
                raise Unmodelled("switch without otherwise in " + fn.name)
            alts, neg = [], []
            z = v.v
            for k, tgt in arms:
                if k is None:
                    alts.append(z3.And(*neg) if neg else True)
                else:
                    kv = z3.BitVecVal(k, v.bits)
                    alts.append(z == kv); neg.append(z != kv)
            return arms[self.E.fork(alts, "sw")][1]
        raise Unmodelled(f"switch on {type(v).__name__} in {fn.name}")

    # ------------------------------------------------------------------ calls
    def call(self, callee, args, fr, dest=None):
        crate = fr.fn.crate
        if self.tybind:
            callee = self._subst(callee)
        for rx, h in self.overrides:
            if rx.search(callee):
                r = h(self, callee, args, fr)
                if r is not NotImplemented: return r
        dty = self.place_ty(fr, dest) if dest is not None else None
        # repo function?
        f = None
        if not callee.startswith(("std::", "core::", "alloc::")):
            f = self.P.find_fn(callee, crate)
        if f is not None:
            return self.run_fn(f, args)
        r = self.std.call(self, callee, args, fr, dty)
        if r is NotImplemented:
            # dynamic dispatch on the runtime type of the receiver for <T as Trait>::method
            q = mir.split_qualified(callee)
            if q and args:
                f = self._dispatch_by_value(q[2], q[1], args, crate)
                if f is not None: return self.run_fn(f, args)
            raise Unmodelled(f"callee {callee} (in {fr.fn.crate}::{fr.fn.name})")
        return r

    def _subst(self, callee):
        for k, v in self.tybind.items():
            if k.startswith("<"):
                callee = callee.replace(k, v)
        for k, v in self.tybind.items():
            if not k.startswith("<"):
                callee = re.sub(r"(?<![\w:])" + re.escape(k) + r"(?![\w])", v, callee)
        return callee

    def _dispatch_by_value(self, method, trait, args, crate):
        v = args[0]
        while isinstance(v, Ref): v = v.cell.v
        name = None
        if isinstance(v, Agg) and v.name: name = v.name.split("::")[-1]
        elif isinstance(v, EnumV): name = v.d.name
        if name is None: return None
        try:
            return self.P._find_trait_method(name, trait, method, crate) or \
                   next((self.P._find_trait_method(name, trait, method, c) for c in self.P.fns
                         if self.P._find_trait_method(name, trait, method, c)), None)
        except Unmodelled:
            return None

    def call_value(self, f, args):
        """call a closure / fn item / PyFn value with positional args"""
        while isinstance(f, Ref): f = f.cell.v
        if isinstance(f, PyFn): return f.f(self, *args)
        if isinstance(f, Closure):
            # closure bodies take (self-or-&self, args...)
            p0 = f.fn.params[0][1] if f.fn.params else ""
            selfv = Ref(Cell(f)) if p0.startswith("&") else f
            return self.run_fn(f.fn, [selfv] + list(args))
        if isinstance(f, FnRef):
            fake = Frame(_FakeFn(f.crate))
            # enum tuple-variant constructor used as a function
            plain = strip_generics(f.path)
            if "::" in plain:
                tpath, last = plain.rsplit("::", 1)
                try:
                    d = self.P.enum_for_type(parse_ty(tpath), f.crate)
                except Unmodelled:
                    d = None
                if d is not None and last in d.index:
                    return EnumV(d, last, [Cell(a) for a in args])
            return self.call(f.path, list(args), fake)
        if isinstance(f, Ptr): return self.call_value(f.cell.v, args)       # Box<dyn Fn..> / Arc<dyn Fn..>
        raise Unmodelled("call of " + type(f).__name__)


class _FakeFn:
    def __init__(self, crate):
        self.crate, self.name, self.locals, self.promoted = crate, "<fnref>", {}, {}


def _unescape(s):
    return bytes(s, "utf-8").decode("unicode_escape") if "\\" in s else s


def _unescape_bytes(s):
    out, i = [], 0
    while i < len(s):
        if s[i] == "\\":
            c = s[i + 1]
            if c == "x": out.append(int(s[i + 2:i + 4], 16)); i += 4
            elif c == "n": out.append(10); i += 2
            elif c == "t": out.append(9); i += 2
            elif c == "r": out.append(13); i += 2
            elif c == "0": out.append(0); i += 2
            else: out.append(ord(c)); i += 2
        else:
            out.append(ord(s[i])); i += 1
    return out
