#!/bin/bash
# verify_mutant.sh <MUTANT_ID> : confirm (suite passes with change) (demo fails with change) (demo passes without)
id=$1; prop=${id%_*}; wt=/tmp/mut/$prop; m=/tmp/mut/out/$id; [ -d /tmp/mut/out2/$id ] && m=/tmp/mut/out2/$id
cd $wt || exit 2
git checkout -q -- . && git clean -qfd -e target
place=$(grep -m1 -ioE "(PLACE AT|Place this file at): *[^ ]+" $m/demo.rs | sed -E 's/.*: *//')
runw=$(grep -m1 -oE "cargo test -p [a-z-]+ --offline --test [a-z0-9_]+" $m/demo.rs)
[ -z "$place" ] && { echo "$id NO-PLACE"; exit 2; }
git apply $m/patch.diff || { echo "$id PATCH-DOES-NOT-APPLY"; exit 2; }
suite=$(cargo test --workspace --no-fail-fast --offline 2>&1 | grep -E "test result" | awk '{p+=$4; f+=$6} END {print p"/"f}')
mkdir -p $(dirname $place); cp $m/demo.rs $place
with=$($runw 2>&1 | grep -E "test result" | tail -1)
git apply -R $m/patch.diff
without=$($runw 2>&1 | grep -E "test result" | tail -1)
git checkout -q -- . && git clean -qfd -e target
echo "$id suite(passed/failed)=$suite | demo WITH change: $with | demo WITHOUT change: $without"
