"""dev helper: python3-vt tools/mutdev.py <patch|-> <crate,crate,..>  -> prints a scratch dir with the patched repo copy and its MIR
(scratch/mir is the mir_dir for mirsym/dev.py).  Remove the directory when done."""
import os, subprocess, sys, tempfile
sys.path.insert(0, os.path.join(os.path.dirname(os.path.abspath(__file__)), "..", "lib"))
import mrun
src = "/var/tmp/" + [d for d in os.listdir("/var/tmp") if d.startswith("ebv.manual.")][0] + "/repo"
d = sys.argv[3] if len(sys.argv) > 3 else tempfile.mkdtemp(prefix="ebv.mutdev.", dir="/var/tmp")
if len(sys.argv) <= 3: subprocess.check_call(["rsync", "-a", src + "/", d + "/repo/"])
if sys.argv[1] != "-" and len(sys.argv) <= 3:
    subprocess.check_call(["patch", "-p1", "-s", "-i", os.path.abspath(sys.argv[1])], cwd=d + "/repo")
out, t = mrun.dump_mir(d, set(sys.argv[2].split(",")))
print(out)
