#!/bin/bash
# eval_mutant.sh <MUTANT_ID> [PROPS...] : apply to /repo, run the quick checks of the properties, undo
id=$1; shift; props=${@:-${id%_*}}; m=/tmp/mut/out/$id; [ -d /tmp/mut/out2/$id ] && m=/tmp/mut/out2/$id
[ -d /tmp/mut/out3/$id ] && m=/tmp/mut/out3/$id
[ -d /tmp/mut/out5/$id ] && m=/tmp/mut/out5/$id
[ -d /verif/seeded/$id ] && m=/verif/seeded/$id
cd /repo && git status --short | grep -q . && { echo "/repo not clean"; exit 2; }
git apply $m/patch.diff || { echo "$id PATCH-DOES-NOT-APPLY"; exit 2; }
for p in $props; do
  out=$(cd /verif && VERIF_EVIDENCE_DIR=/tmp/mut/evidence python3-vt run.py $p --tier ${TIER:-quick} 2>&1); rc=$?
  echo "$id $p rc=$rc $(echo "$out" | grep -E "VIOLATION|obligation .*:|INCONCLUSIVE" | head -4 | tr '\n' ' ' | cut -c1-400)"
done
git -C /repo checkout -q -- .
