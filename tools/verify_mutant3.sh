#!/bin/bash
# verify_mutant3.sh <dir with patch.diff demo.rs> <worktree> : (suite passes with change) (demo fails with change) (demo passes without)
m=$1; wt=$2; id=$(basename $m)
cd $wt || exit 2
export CARGO_TARGET_DIR=$wt/target CARGO_NET_OFFLINE=true
git checkout -q -- . && git clean -qfd -e target
place=$(head -12 $m/demo.rs | grep -m1 -oE "crates/[a-z-]+/tests/[a-z0-9_]+\.rs")
runw=$(head -12 $m/demo.rs | grep -m1 -oE "cargo test -p [a-z-]+ --test [a-z0-9_]+ --offline")
[ -z "$place" ] && { echo "$id NO-PLACE"; exit 2; }
git apply $m/patch.diff || { echo "$id PATCH-DOES-NOT-APPLY"; exit 2; }
suite=$(cargo test --workspace --no-fail-fast --offline 2>&1 | grep -E "test result" | awk '{p+=$4; f+=$6} END {print p"/"f}')
mkdir -p $(dirname $place); cp $m/demo.rs $place
with=$($runw 2>&1 | grep -E "test result" | tail -1)
git apply -R $m/patch.diff
without=$($runw 2>&1 | grep -E "test result" | tail -1)
git checkout -q -- . && git clean -qfd -e target
echo "$id suite(passed/failed)=$suite | demo WITH change: $with | demo WITHOUT change: $without"
