"""collect the latest evaluation line per seeded change from the eval logs -> seeded/RESULTS.json + markdown table on stdout"""
import json, os, re, sys, glob
logs = ["/tmp/mut/logs/eval_all.log"] + sorted(glob.glob("/tmp/mut/logs/eval_round*.log"), key=lambda p: int(re.search(r"(\d+)", os.path.basename(p)).group(1)))
res_path = "/verif/seeded/RESULTS.json"
res = json.load(open(res_path)) if os.path.exists(res_path) else {}
for lg in logs:
    if not os.path.exists(lg): continue
    for line in open(lg):
        m = re.match(r"(C\d\d_\d+) (C\d\d) rc=(\d+) ?(.*)", line)
        if not m: continue
        mid, pid, rc, rest = m.groups()
        v = re.search(r"VIOLATION property=\S+ replay=\S+\s+obligation (\S+): \S+ :: (.*?)(?= VIOLATION| INCONCLUSIVE|$)", rest)
        if v: verdict, by, what = "caught", v.group(1), v.group(2).strip()[:140]
        elif rc == "1" and "VIOLATION" in rest:
            v2 = re.search(r"VIOLATION property=\S+ replay=\S+\s+obligation (\S+?):", rest)
            verdict, by, what = "caught", (v2.group(1) if v2 else ""), "(log line truncated)"
        elif "INCONCLUSIVE" in rest:
            i = re.search(r"obligation=(\S+) \((.*)", rest)
            verdict, by, what = "inconclusive", i.group(1) if i else "", (i.group(2) if i else rest)[:140]
        else: verdict, by, what = "missed", "", ""
        res[mid] = dict(check=pid, verdict=verdict, by=by, what=what, log=os.path.basename(lg))
json.dump(res, open(res_path, "w"), indent=1, sort_keys=True)
print("| change | what it breaks | quick check | verdict | obligation that reports it |")
print("|---|---|---|---|---|")
for mid in sorted(res):
    meta = {}
    try: meta = json.load(open(f"/verif/seeded/{mid}/meta.json"))
    except Exception: pass
    summ = (meta.get("summary") or "")[:110].replace("|", "/").replace("\n", " ")
    r = res[mid]
    print(f"| {mid} | {summ} | {r['check']} | {r['verdict']} | {r['by']}: {r['what'].replace('|', '/')} |")
