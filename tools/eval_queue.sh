#!/bin/bash
# eval_queue.sh LOG ID... : serialised (flock) evaluation of seeded changes against the quick checks
log=$1; shift
for id in "$@"; do
  flock /tmp/mut/eval.lock /verif/tools/eval_mutant.sh $id >> $log 2>&1
done
